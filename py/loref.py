"""Executable reference of the first three stages of `ska lo` (graph, extremities, compaction + path enumeration),
written from the code (src/skalo/input.rs, extremities.rs, compaction.rs, read_graph.rs). Used to cross-check
LoGraph.tla's FinalGroups/FinalIndels on inputs too large for TLC and to explore where the TLA+ model (which has
no compaction) and the code could differ."""
import collections

_TR = str.maketrans("ACGT", "TGCA")
_ORD = {"A": 0, "C": 1, "T": 2, "G": 3}


def rc(x):
    return x.translate(_TR)[::-1]


def rows_of(samples, k):
    """canonical split k-mer rows: arms -> {sample: set of middle bases}; self-reverse-complementary arms get the base and its
    complement (ska's palindrome rule). samples: list of list of records (strings over ACGT, N breaks windows)"""
    h = (k - 1) // 2
    rows = collections.defaultdict(lambda: collections.defaultdict(set))
    for si, recs in enumerate(samples):
        for s in recs:
            s = s.upper()
            for i in range(len(s) - k + 1):
                w = s[i:i + k]
                if any(c not in "ACGT" for c in w):
                    continue
                r = rc(w)
                a, b = w[:h] + w[h + 1:], r[:h] + r[h + 1:]
                if a == b:
                    rows[a][si].update((w[h], r[h]))
                elif a < b:
                    rows[a][si].add(w[h])
                else:
                    rows[b][si].add(r[h])
    return rows


def graph(rows, k):
    """multigraph on (k-1)-mers exactly as build_graph pushes edges: per row and per base of the union of middle sets,
    one edge for the full k-mer and one for its reverse complement"""
    h = (k - 1) // 2
    adj = collections.defaultdict(list)
    fulls = {}
    for arms in sorted(rows):
        per = rows[arms]
        for m in sorted(set().union(*per.values())):
            ss = frozenset(s for s, mids in per.items() if m in mids)
            f = arms[:h] + m + arms[h:]
            adj[f[:-1]].append(f[1:])
            adj[rc(f[1:])].append(rc(f[:-1]))
            fulls.setdefault(f, ss)
            fulls.setdefault(rc(f), ss)
    for u in adj:
        adj[u].sort(key=lambda x: [_ORD[c] for c in x])      # fix F13: neighbour lists are sorted (by packed value: A<C<T<G)
    return adj, fulls


def extremities(adj, fulls):
    starts = set()
    for u, nx in adj.items():
        if len(nx) > 1 and any(fulls[u + a[-1]] != fulls[u + b[-1]] for a in nx for b in nx):
            starts.add(u)
    return starts, {rc(u) for u in starts}


def compact(adj, starts, ends):
    comp = {}
    for group in (starts, ends):
        for kmer in group:
            for s in adj.get(kmer, []):
                cur, vis, vv = s, set(), []
                while True:
                    nd = adj.get(cur)
                    if nd is not None and len(nd) == 1 and nd[0] not in vis:
                        cur = nd[0]
                        vv.append(cur)
                        vis.add(cur)
                        if cur in ends or cur in starts:
                            break
                    else:
                        break
                if len(vv) > 1:
                    comp[s] = vv
    for s, vv in comp.items():
        adj[s] = [n for n in adj[s] if n != vv[0]]
        for a, b in zip(vv[:-2], vv[1:-1]):
            adj[a] = [n for n in adj[a] if n != b]
        adj[s].append(vv[-1])
        vv.pop()
    return comp


def traverse(adj, starts, ends, comp, k, maxdepth=4):
    built = {}
    for kmer in starts:
        tmp = collections.defaultdict(list)
        for s in adj[kmer]:
            stack = [(s, {kmer, s}, [kmer, s] + comp.get(s, []), 0)]
            while stack:
                cur, vis, vv, depth = stack.pop()
                if depth > maxdepth:
                    continue
                while True:
                    good = [n for n in adj.get(cur, []) if n not in vis]
                    if len(good) == 1:
                        n = good[0]
                        vis.add(n)
                        vv.append(n)
                        cur = n
                        vv.extend(comp.get(n, []))
                        if n in ends:
                            tmp[n].append(list(vv))
                    elif len(good) > 1:
                        for n in good:
                            nvv = list(vv) + [n] + comp.get(n, [])
                            if n in ends:
                                tmp[n].append(list(nvv))
                            stack.append((n, set(vis) | {n}, nvv, depth + 1))
                        break
                    else:
                        break
        if any(len(v) > 1 for v in tmp.values()):
            for x, vs in tmp.items():
                if len({v[1] for v in vs}) > 1 and len({v[-2] for v in vs}) > 1:
                    if len(vs) == 2:
                        kept = vs
                    else:
                        cnt = collections.Counter(len(v) for v in vs)
                        best = max(cnt.items(), key=lambda lc: (lc[1], -lc[0]))[0]
                        kept = [v for v in vs if len(v) == best]
                    built[(kmer, x)] = [(spell(v), snp_positions(v, starts, ends, k - 1)) for v in kept]      # in walk order
    groups, indels = {}, {}
    kg = k - 1
    for key, vs in built.items():
        if len(vs) < 2:
            continue
        if len(vs) == 2 and len(vs[0][0]) != len(vs[1][0]):
            if min(len(vs[0][0]), len(vs[1][0])) <= 2 * kg:
                indels[key] = vs
        else:
            groups[key] = vs
    return groups, indels


def spell(v):
    return v[0] + "".join(n[-1] for n in v[1:])


def snp_positions(v, starts, ends, kg):
    """read_graph.rs: candidate SNP positions of a path (index into the spelled sequence): the base after an entry node,
    the base before an exit node. `len - kg` is computed on usize: for paths shorter than kg it wraps (release build)."""
    out = []
    for i, n in enumerate(v):
        if n in starts and (len(v) < kg or i <= len(v) - kg):
            out.append(i + kg)
        elif n in ends:
            out.append(i - 1)          # i = 0 cannot get here without the entry being an exit node too
    return out


def lo_stages(samples, k, maxdepth=4, with_compaction=True):
    rows = rows_of(samples, k)
    adj, fulls = graph(rows, k)
    starts, ends = extremities(adj, fulls)
    adj2 = {u: list(v) for u, v in adj.items()}
    comp = compact(adj2, starts, ends) if with_compaction else {}
    groups, indels = traverse(adj2, starts, ends, comp, k, maxdepth)
    return {"entries": sorted(starts), "nodes": len(adj), "groups": {key: sorted(v[0] for v in vs) for key, vs in groups.items()},
            "indels": {key: sorted(v[0] for v in vs) for key, vs in indels.items()}, "groups_full": groups, "indels_full": indels,
            "fulls": fulls}


# ---- process_indels.rs / process_variants.rs (reference-free mode) ------------------------------------------------


def kmer_key(x):
    return [_ORD[c] for c in x]


def process_indels(indels, fulls, nsamp, k, max_missing):
    kg = k - 1
    order = sorted(indels, key=lambda key: (sum(len(v[0]) for v in indels[key]), kmer_key(key[0]), kmer_key(key[1])))
    entries, final = set(), {}
    for key in order:
        if key[0] not in entries:
            entries.update((key[0], rc(key[0]), key[1], rc(key[1])))
            final[key] = indels[key]
    records = []
    for key, vs in final.items():
        sets = [fulls.get(v[0][:kg + 1]) for v in vs]
        sets = [x for x in sets if x is not None]
        missing, refp, altp = 0, False, False
        for i in range(nsamp):
            a, b = i in sets[0], i in sets[1]
            if (not a and not b) or (a and b):
                missing += 1
            elif a:
                refp = True
            else:
                altp = True
        if f32_le(missing, nsamp, max_missing) and refp and altp:
            red = [v[0][kg:] for v in vs]
            n = 0
            identical = True
            while identical:
                n += 1
                ends_ = set()
                for q in red:
                    if n > len(q):
                        identical = False
                    else:
                        ends_.add(q[len(q) - n:])
                if len(ends_) > 1:
                    identical = False
            n -= 1
            last = red[0][len(red[0]) - n:][:kg]
            mids = [(q[:len(q) - n] or "-") for q in red]
            var = sorted(zip(mids, [len(x) for x in sets], sets, range(2)), key=lambda t: -t[1])   # stable: ties keep path order
            (ra, _, rs, _), (aa, _, as_, _) = var[0], var[1]
            gts = []
            for i in range(nsamp):
                a, b = i in rs, i in as_
                gts.append("0/1" if a and b else "0" if a else "1" if b else ".")
            records.append((ra, aa, vs[0][0][:kg], last, tuple(gts)))
    return entries, sorted(records)


def f32_le(num, den, thr):
    import struct
    f = lambda x: struct.unpack("f", struct.pack("f", x))[0]
    return f(f(num) / f(den)) <= f(thr)


def ref_index(genome, kg):
    """positioning.rs extract_genomic_kmers: (k-1)-mer -> the first three `index of the base after it`"""
    g = "".join(c for c in genome.upper() if not c.isspace())
    idx = {}
    for n in range(len(g) - kg + 1):
        w = g[n:n + kg]
        if all(c in "ACGT" for c in w):
            lst = idx.setdefault(w, [])
            if len(lst) < 3:
                lst.append(n + kg)
    return idx, g


def most_frequent(votes):
    cnt = collections.Counter(votes)
    if not cnt:
        return None
    best = max(cnt.values())
    top = [v for v, c in cnt.items() if c == best]
    if len(top) > 1 or best < 10:
        return None
    return top[0], best


def scan_variants(vs, kg, idx):
    fwd, rev = [], []
    for (seq, _) in vs:
        for strand, q in ((fwd, seq), (rev, rc(seq))):
            for pos in range(len(q) - kg + 1):
                for position in idx.get(q[pos:pos + kg], []):
                    strand.append(position - pos)
    f, r = most_frequent(fwd), most_frequent(rev)
    if f and r:
        if f[1] == r[1]:
            return None
        return (f[0], "for") if f[1] > r[1] else (r[0], "rc")
    if f:
        return f[0], "for"
    if r:
        return r[0], "rc"
    return None


def call_snps(groups, indel_entries, fulls, nsamp, k, max_missing, max_indel_kmers=2, ref=None):
    kg = k - 1
    groups = {key: list(vs) for key, vs in groups.items()}
    for key in groups:
        keep = []
        for (seq, pos) in groups[key]:
            nb = sum(1 for i in range(len(seq) - kg) if seq[i:i + kg] in indel_entries)
            if nb <= max_indel_kmers:
                keep.append((seq, pos))
        groups[key] = keep
    keys = [key for key in groups if groups[key]]
    keys.sort(key=lambda key: (-(len(groups[key]) / len(groups[key][0][0])), kmer_key(key[0]), kmer_key(key[1])))
    done, cols = set(), []
    positioned = {}
    idx = ref_index(ref, kg)[0] if ref is not None else None
    comp = str.maketrans("ACGT", "TGCA")
    for key in keys:
        if key[0] in indel_entries or rc(key[1]) in indel_entries:
            continue
        vs = groups[key]
        if len(vs) < 2:
            continue
        cand = set(p for (_, pos) in vs for p in pos)
        real = [p for p in cand if len({seq[p] for (seq, _) in vs if 0 <= p < len(seq)}) > 1]
        save, found = set(), {}
        for p in real:
            col = ["-"] * nsamp
            tmp, new = set(), True
            for (seq, _) in vs:
                if p - kg < 0 or p + kg + 1 > len(seq):
                    raise IndexError("get_range out of bounds: the code panics here")
                fb, fa = seq[p - kg:p + 1], seq[p:p + kg + 1]
                if fb not in done and rc(fa) not in done:
                    for sidx in fulls[fb]:
                        col[sidx] = fb[-1] if col[sidx] in ("-", fb[-1]) else "N"
                    tmp.update((fb, rc(fb), fa, rc(fa)))
                else:
                    new = False
            if new:
                bases = {c for c in col if c in "ACGT"}
                miss = sum(1 for c in col if c not in "ACGT")
                if len(bases) >= 2 and f32_le(miss, nsamp, max_missing):
                    save.update(tmp)
                    found[p] = "".join(col)
        done.update(save)
        if ref is None:
            cols.extend(found.values())
        elif found:
            where = scan_variants(vs, kg, idx)
            if where is not None:
                position, orient = where
                L = len(vs[0][0])
                for p, col in found.items():
                    fp = position + (p - kg) if orient == "for" else position + (L - p - kg - 1)
                    fp &= 0xFFFFFFFF                      # u32 arithmetic
                    if fp not in positioned:
                        positioned[fp] = col if orient == "for" else col.translate(comp)
    if ref is not None:
        return positioned
    return sorted(cols)


def lo_calls(samples, k, max_missing=0.1, maxdepth=4, ref=None):
    st = lo_stages(samples, k, maxdepth)
    n = len(samples)
    entries, records = process_indels(st["indels_full"], st["fulls"], n, k, max_missing)
    cols = call_snps(st["groups_full"], entries, st["fulls"], n, k, max_missing, ref=ref)
    out = {"indel_records": records, "stages": st}
    if ref is None:
        out["snp_columns"] = cols
        return out
    # output_snps.rs with a reference: SNPs at positions inside the genome, in order; VCF records; pseudo-genomes
    g = "".join(c if c in "ATGCN" else "N" for c in ref_index(ref, k - 1)[1])
    pos = sorted(p for p in cols if p < len(g))
    out["snp_columns_in_order"] = [cols[p] for p in pos]
    vcf = []
    for p in pos:
        col, r = cols[p], g[p]
        alts = sorted({c for c in col if c != r and c not in "-N"})
        gts = ["0" if c == r else "." if c in "-N" else str(alts.index(c) + 1) for c in col]
        vcf.append((p + 1, r, ",".join(alts), tuple(gts)))
    out["vcf"] = vcf
    out["pseudo"] = ["".join(cols[p][i] if p in cols else g[p] for p in range(len(g))) for i in range(n)]
    return out

