"""Executable reference of the first three stages of `ska lo` (graph, extremities, compaction + path enumeration),
written from the code (src/skalo/input.rs, extremities.rs, compaction.rs, read_graph.rs). Used to cross-check
LoGraph.tla's FinalGroups/FinalIndels on inputs too large for TLC and to explore where the TLA+ model (which has
no compaction) and the code could differ."""
import collections

_TR = str.maketrans("ACGT", "TGCA")


def rc(x):
    return x.translate(_TR)[::-1]


def rows_of(samples, k):
    """canonical split k-mer rows: arms -> {sample: set of middle bases}; self-reverse-complementary arms get the base and its
    complement (ska's palindrome rule). samples: list of list of records (strings over ACGT, N breaks windows)"""
    h = (k - 1) // 2
    rows = collections.defaultdict(lambda: collections.defaultdict(set))
    for si, recs in enumerate(samples):
        for s in recs:
            s = s.upper()
            for i in range(len(s) - k + 1):
                w = s[i:i + k]
                if any(c not in "ACGT" for c in w):
                    continue
                r = rc(w)
                a, b = w[:h] + w[h + 1:], r[:h] + r[h + 1:]
                if a == b:
                    rows[a][si].update((w[h], r[h]))
                elif a < b:
                    rows[a][si].add(w[h])
                else:
                    rows[b][si].add(r[h])
    return rows


def graph(rows, k):
    """multigraph on (k-1)-mers exactly as build_graph pushes edges: per row and per base of the union of middle sets,
    one edge for the full k-mer and one for its reverse complement"""
    h = (k - 1) // 2
    adj = collections.defaultdict(list)
    fulls = {}
    for arms in sorted(rows):
        per = rows[arms]
        for m in sorted(set().union(*per.values())):
            ss = frozenset(s for s, mids in per.items() if m in mids)
            f = arms[:h] + m + arms[h:]
            adj[f[:-1]].append(f[1:])
            adj[rc(f[1:])].append(rc(f[:-1]))
            fulls.setdefault(f, ss)
            fulls.setdefault(rc(f), ss)
    for u in adj:
        adj[u].sort()                 # fix F13: neighbour lists are sorted
    return adj, fulls


def extremities(adj, fulls):
    starts = set()
    for u, nx in adj.items():
        if len(nx) > 1 and any(fulls[u + a[-1]] != fulls[u + b[-1]] for a in nx for b in nx):
            starts.add(u)
    return starts, {rc(u) for u in starts}


def compact(adj, starts, ends):
    comp = {}
    for group in (starts, ends):
        for kmer in group:
            for s in adj.get(kmer, []):
                cur, vis, vv = s, set(), []
                while True:
                    nd = adj.get(cur)
                    if nd is not None and len(nd) == 1 and nd[0] not in vis:
                        cur = nd[0]
                        vv.append(cur)
                        vis.add(cur)
                        if cur in ends or cur in starts:
                            break
                    else:
                        break
                if len(vv) > 1:
                    comp[s] = vv
    for s, vv in comp.items():
        adj[s] = [n for n in adj[s] if n != vv[0]]
        for a, b in zip(vv[:-2], vv[1:-1]):
            adj[a] = [n for n in adj[a] if n != b]
        adj[s].append(vv[-1])
        vv.pop()
    return comp


def traverse(adj, starts, ends, comp, k, maxdepth=4):
    built = {}
    for kmer in starts:
        tmp = collections.defaultdict(list)
        for s in adj[kmer]:
            stack = [(s, {kmer, s}, [kmer, s] + comp.get(s, []), 0)]
            while stack:
                cur, vis, vv, depth = stack.pop()
                if depth > maxdepth:
                    continue
                while True:
                    good = [n for n in adj.get(cur, []) if n not in vis]
                    if len(good) == 1:
                        n = good[0]
                        vis.add(n)
                        vv.append(n)
                        cur = n
                        vv.extend(comp.get(n, []))
                        if n in ends:
                            tmp[n].append(list(vv))
                    elif len(good) > 1:
                        for n in good:
                            nvv = list(vv) + [n] + comp.get(n, [])
                            if n in ends:
                                tmp[n].append(list(nvv))
                            stack.append((n, set(vis) | {n}, nvv, depth + 1))
                        break
                    else:
                        break
        if any(len(v) > 1 for v in tmp.values()):
            for x, vs in tmp.items():
                if len({v[1] for v in vs}) > 1 and len({v[-2] for v in vs}) > 1:
                    if len(vs) == 2:
                        kept = vs
                    else:
                        cnt = collections.Counter(len(v) for v in vs)
                        best = max(cnt.items(), key=lambda lc: (lc[1], -lc[0]))[0]
                        kept = [v for v in vs if len(v) == best]
                    built[(kmer, x)] = sorted(v[0] + "".join(n[-1] for n in v[1:]) for v in kept)
    groups, indels = {}, {}
    kg = k - 1
    for key, seqs in built.items():
        if len(seqs) < 2:
            continue
        if len(seqs) == 2 and len(seqs[0]) != len(seqs[1]):
            if min(len(seqs[0]), len(seqs[1])) <= 2 * kg:
                indels[key] = seqs
        else:
            groups[key] = seqs
    return groups, indels


def lo_stages(samples, k, maxdepth=4, with_compaction=True):
    rows = rows_of(samples, k)
    adj, fulls = graph(rows, k)
    starts, ends = extremities(adj, fulls)
    adj2 = {u: list(v) for u, v in adj.items()}
    comp = compact(adj2, starts, ends) if with_compaction else {}
    groups, indels = traverse(adj2, starts, ends, comp, k, maxdepth)
    return {"entries": sorted(starts), "nodes": len(adj), "groups": groups, "indels": indels}
