"""C06 - align emits exactly the k-mer columns that pass the requested filters."""
import random, json, itertools
import vlib, gen, skacli

FILTERS = ["no-filter", "no-const", "no-ambig", "no-ambig-or-const"]
IUPAC = "RYSWKMBDHVN"


def freq_choices(rng, n):
    """min-freq values as [num, 1000]: 0, 1, j/n rounded down/up to 3 places, a few fixed ones."""
    out = [[0, 1000], [1000, 1000], [500, 1000], [900, 1000]]
    for j in range(1, n + 1):
        lo = (1000 * j) // n
        out.append([lo, 1000])
        if lo * n != 1000 * j:
            out.append([lo + 1, 1000])
    return out


def run(run, tier, seed):
    run.rule = ("design: MC_Filter - every two-row table over the symbol set x every (threshold, filter, ambig-as-missing, "
                "ambig-mask, no-gap-only) setting: code-shaped filter = declarative predicate, monotonicity; every case "
                "replayed into MergeSkaArray::filter (+write_fasta). traces: random tables (1-12 samples, all 15 IUPAC "
                "letters and '-'), saved as .skf, `ska align` with every filter x random flags x min-freq j/n, and the "
                "library route apply_filters+write_fasta; TLC checks names, equal lengths and the bag of columns. "
                "non-trivial = some row kept and some removed, or a mask applied; distinct by (table, flags, threshold)")
    run.assumptions = ["tables are materialised through MergeSkaDict::build_from_array + MergeSkaArray::new + save",
                       "min-freq is a decimal with <= 3 places; exact rational arithmetic in the spec"]
    cfg = "MC_Filter_quick" if tier == "quick" else "MC_Filter_thorough"
    d = vlib.design_check("MC_Filter", cfg, "c06-filter", workers=8, timeout=1800, want_replay=True)
    run.add_design(d)
    rep = d["replay"]
    if tier == "thorough" and len(rep) > 150000:
        rng0 = random.Random(seed)
        rep = rng0.sample(rep, 150000)
    verdicts = vlib.skav_parallel("replay", rep, jobs=8)
    run.replayed += len(verdicts)
    for beh, v in zip(rep, verdicts):
        if not v.get("ok"):
            run.fail({"kind": "replay", "behaviour": beh, "verdict": v}, "filter behaviour diverges: %s" % v.get("why"))
        elif 0 < len(beh["keep"]) < 2 or beh["setting"]["mask"]:
            run.nontriv(["rp", beh["rows"], beh["setting"]])
    run.sample({"replayed_behaviour": rep[len(rep) // 3]})

    rng = random.Random(seed + 6)
    ntab = 14 if tier == "quick" else 150
    sb = skacli.Sandbox("c06")
    lib_ops = []
    try:
        for ti in range(ntab):
            k = rng.choice(gen.ALLK)
            n = rng.choice([1, 2, 2, 3, 3, 4, 5, 6, 8, 10, 12])
            nrows = rng.randint(1, 60 if tier == "quick" else 200)
            amb = IUPAC if ti % 4 != 0 else ""
            rows = gen.random_table(rng, k, n, nrows, alphabet="AACCGGTT---", ambig=amb)
            names = ["t%d_%d" % (ti, i) for i in range(n)]
            sb.reset()
            sb.import_table("x", k, ti % 2 == 0, names, rows)
            combos = []
            for filt in FILTERS:
                for _ in range(2 if tier == "quick" else 4):
                    combos.append((filt, rng.choice(freq_choices(rng, n)), rng.random() < 0.4, rng.random() < 0.4,
                                   rng.random() < 0.4))
            for (filt, minf, am, mask, nogap) in combos:
                e = sb.align("x", n, minf, filt, am, mask, nogap)
                run.evaluations += 1
                ncol = len(e["seqs"][0]) if e.get("seqs") else 0
                if 0 < ncol < nrows or mask:
                    run.nontriv([rows, filt, minf, am, mask, nogap])
            if n >= 3:
                # --min-freq typed with many decimals: t/n to full double precision, and rounded to seven places
                for fmt in ("%r", "%.7f"):
                    t_ = rng.randint(1, n - 1)
                    sb.align("x", n, None, rng.choice(["no-filter", "no-const"]), False, False, False, minf_text=fmt % (t_ / n))
                    run.evaluations += 1
            # library route for the same table
            t = {"k": k, "rc": ti % 2 == 0, "names": names, "rows": rows}
            for (filt, minf, am, mask, nogap) in combos[:4]:
                lib_ops.append({"op": "tbl", "w": 64 if k <= 31 else 128, "table": t, "ctx": {"minf": minf, "filter": filt, "am": am, "mask": mask, "nogap": nogap, "n": n},
                                "steps": [{"do": "proj"},
                                          {"do": "apply_filters", "min_freq": float(skacli.fstr(minf)), "ambig_missing": am,
                                           "filter": filt, "mask": mask, "nogap": nogap}, {"do": "fasta"}]})
        events = sb.events
        # library events -> same event shapes
        ep = 100000
        for op, ev in zip(lib_ops, vlib.skav_parallel("exec", lib_ops, jobs=8)):
            ep += 1
            c = op["ctx"]
            events.append({"ev": "reset", "ep": ep, "stateful": True})
            outs = ev.get("outs", [])
            if len(outs) != 3 or any(o.get("panic") for o in outs):
                events.append({"ev": "align", "ep": ep, "stateful": True, "via": "lib", "ok": False, "names": [], "seqs": [],
                               "ctx": {"file": "x", "minf": c["minf"], "filter": c["filter"], "am": c["am"], "mask": c["mask"], "nogap": c["nogap"], "fp_ceil_differs": False}})
                continue
            events.append({"ev": "import", "ep": ep, "stateful": True, "ctx": {"out": "x", "table": op["table"]}, "table": outs[0]})
            events.append({"ev": "align", "ep": ep, "stateful": True, "via": "lib", "ok": True, "names": outs[2]["names"], "seqs": outs[2]["seqs"],
                           "ctx": {"file": "x", "minf": c["minf"], "filter": c["filter"], "am": c["am"], "mask": c["mask"], "nogap": c["nogap"],
                                   "fp_ceil_differs": skacli.fp_ceil_differs(c["n"], c["minf"])}})
            run.evaluations += 1
    finally:
        sb.close()
    validate(run, events, "c06", tier)


def validate(run, events, tag, tier, shards=None):
    ok, bad, states = vlib.validate_trace("Trace_Ska", events, tag, shards=shards or (8 if tier == "quick" else 16), timeout=2400)
    run.states += states
    run.transitions += len(events)
    run.events += ok
    nres = sum(1 for e in events if e["ev"] == "reset")
    run.traces_validated += nres if nres else ok       # episodes, or self-contained events when there are no episodes
    for e in events:
        if e["ev"] == "align" and e.get("ok"):
            s = {"ev": "align", "ctx": e["ctx"], "names": e["names"], "seqs": ["".join(map(chr, x))[:60] for x in e["seqs"]]}
            run.sample(s, limit=3)
            break
    for i in bad:
        e = events[i]
        case = {"kind": "trace", "event": e, "episode": [x for x in events if x.get("ep") == e.get("ep")]}
        case["fp_ceil_differs"] = bool(e.get("ctx", {}).get("fp_ceil_differs"))
        case["ev"] = e["ev"]
        run.fail(case, "%s event rejected by Trace_Ska: %s" % (e["ev"], json.dumps({k: v for k, v in e["ctx"].items() if k not in ("table", "samples", "weed")})[:300]))


def replay(run, path):
    case = json.load(open(path))["case"]
    if case.get("kind") == "replay":
        v = vlib.skav("replay", [case["behaviour"]])[0]
        run.evaluations += 1
        if not v.get("ok"):
            run.fail(case, "replayed behaviour still diverges: %s" % v.get("why"))
        return
    rerun_episode(run, case, "c06r")


def rerun_episode(run, case, tag):
    """Re-execute a recorded episode's commands against the current tree and validate again."""
    sb = skacli.Sandbox(tag)
    try:
        sb.reset()
        for e in case["episode"]:
            c = e.get("ctx", {})
            ev = e["ev"]
            if ev == "import":
                t = c["table"]
                sb.import_table(c["out"], t["k"], t["rc"], t["names"], t["rows"])
            elif ev == "build":
                sb.build(c["out"], [[bytes(r).decode() for r in s] for s in c["samples"]], c["names"], c["k"], c["rc"])
            elif ev == "merge":
                sb.merge(c["ins"], c["out"])
            elif ev == "delete":
                sb.delete(c["file"], c["names"], via=c.get("via", "args"), out=None if c["out"] == c["file"] else c["out"])
            elif ev == "weed":
                sb.weed(c["file"], [bytes(r).decode() for r in c["weed"]] if c["useweed"] else None, c["reverse"], c["minf"],
                        c["filter"], c["am"], c["mask"], c["nogap"], out=None if c["out"] == c["file"] else c["out"])
            elif ev == "nk":
                sb.nk_event(c["file"])
            elif ev == "load":
                sb.load_event(c["file"])
            elif ev == "twin":
                pass        # twin probes are re-derived only by a full re-run of the check
            elif ev == "align":
                n = len(e.get("names") or []) or 1
                sb.align(c["file"], n, c["minf"], c["filter"], c["am"], c["mask"], c["nogap"], minf_text=c.get("minf_text") or None)
            elif ev == "distance":
                sb.distance(c["file"], 1, c["minf"], c.get("allow_ambig", False), c.get("threads", 1), default_minf=c.get("default_minf", False))
        events = sb.events
    finally:
        sb.close()
    run.evaluations += 1
    ok, bad, states = vlib.validate_trace("Trace_Ska", events, tag, shards=1)
    for i in bad:
        run.fail({"kind": "trace", "event": events[i], "episode": events}, "event still rejected on re-execution")
