"""C14 - distances are SNP counts over shared k-mers plus k-mer set mismatch."""
import random, json
import vlib, gen, skacli
from props.c06 import validate, rerun_episode


def run(run, tier, seed):
    run.rule = ("design: MC_Dist - every unambiguous table with 3 samples and <=2 (quick) / <=3 (thorough) rows over {A,C,-} "
                "x every threshold: code-shaped pipeline (constant-site pre-filter, frequency filter, accumulation) = "
                "declarative (Hamming over shared k-mers, |exactly one|/|at least one|), symmetry, identical samples at (0,0), "
                "proportion in [0,1]; every case replayed through generic_modes::distance. traces: random unambiguous tables "
                "(2-12 samples, 20-2000 rows, any missingness) and planted-SNP genome sets, sample permutations, threads 1/4, "
                "+-allow-ambiguous, min-freq j/n and left out (default, 7-12 samples) through `ska distance`. non-trivial = >=3 samples, a row below the "
                "threshold, a SNP row and a constant row; distinct by (table, threshold)")
    run.assumptions = ["printed distances have 2 and proportions 5 decimals: proportions are compared to one unit of the last place"]
    cfg = "MC_Dist_quick" if tier == "quick" else "MC_Dist_thorough"
    d = vlib.design_check("MC_Dist", cfg, "c14-dist", workers=8, timeout=1800, want_replay=True)
    run.add_design(d)
    verdicts = vlib.skav_parallel("replay", d["replay"], jobs=8)
    run.replayed += len(verdicts)
    for beh, v in zip(d["replay"], verdicts):
        if not v.get("ok"):
            run.fail({"kind": "replay", "behaviour": beh, "verdict": v},
                     "distance behaviour diverges (thr=%s rows=%s): %s" % (beh["thr"], beh["rows"], v.get("why")))
        elif beh["thr"] >= 2:
            run.nontriv(["rp", beh["rows"], beh["thr"]])
    run.sample({"replayed_behaviour": d["replay"][len(d["replay"]) // 2]})

    rng = random.Random(seed + 14)
    ntab = 10 if tier == "quick" else 120
    sb = skacli.Sandbox("c14")
    try:
        for ti in range(ntab):
            k = rng.choice(gen.ALLK)
            n = rng.choice([2, 3, 3, 4, 5, 6, 8, 12])
            sb.reset()
            names = ["q%d_%d" % (ti, i) for i in range(n)]
            if ti % 3 == 2:
                # planted-SNP genome set built from FASTA
                anc = gen.rand_seq(rng, rng.randint(3 * k, 5 * k + 50))
                samples = []
                for i in range(n):
                    s = list(anc)
                    for p in range(len(s)):
                        if rng.random() < 0.01:
                            s[p] = rng.choice("ACGT")
                    s = "".join(s)
                    if rng.random() < 0.3:
                        s = s[:rng.randint(2 * k, len(s))]
                    samples.append([s])
                e = sb.build("x", samples, names, k, True)
                if not e.get("ok"):
                    continue
                if any(c not in (65, 67, 71, 84, 45) for r in e["table"]["rows"] for c in r[1]):
                    continue          # C14 is stated for files without ambiguity codes
                nrows = len(e["table"]["rows"])
                rows = e["table"]["rows"]
            else:
                nrows = rng.randint(20, 150 if tier == "quick" else 2000)
                rows = gen.random_table(rng, k, n, nrows, alphabet="AAAACCGT---" if ti % 2 else "AAAAAAC-")
                # make sure constant rows and SNP rows exist
                sb.import_table("x", k, True, names, rows)
            # thresholds from both sides: just below j/n, just above (j-1)/n, and arbitrary fractions
            freqs = [[0, 1000]] + [[(1000 * j) // n, 1000] for j in rng.sample(range(1, n + 1), min(n, 2))]
            j = rng.randint(1, n)
            freqs.append([(1000 * (j - 1)) // n + 1, 1000])
            freqs.append([rng.choice([300, 550, 250, 100, 900, 340]), 1000])
            for minf in freqs:
                thr = -((-n * minf[0]) // 1000)
                for (aa, th) in [(False, 1), (True, 4)] if ti % 2 == 0 else [(False, 2)]:
                    sb.distance("x", n, minf, allow_ambig=aa, threads=th)
                    run.evaluations += 1
                    below = any(sum(1 for c in r[1] if c != 45) < thr for r in rows)
                    snp = any(len(set(c for c in r[1] if c != 45)) > 1 for r in rows)
                    const = any(len(set(r[1])) == 1 for r in rows)
                    if n >= 3 and below and snp and const:
                        run.nontriv([rows, minf])
            # sample order must not matter: permuted columns
            if ti % 3 != 2:
                perm = list(range(n)); rng.shuffle(perm)
                prow = [[r[0], [r[1][p] for p in perm]] for r in rows]
                sb.reset()
                sb.import_table("x", k, True, [names[p] for p in perm], prow)
                sb.distance("x", n, freqs[-1], allow_ambig=False, threads=1)
                run.evaluations += 1
        # samples that lose every k-mer to the frequency filter: two samples with private k-mers only, next to two
        # that share theirs; the pair of emptied samples has nothing to compare (0 SNPs, proportion 0)
        for pi in range(2 if tier == "quick" else 12):
            k = rng.choice(gen.ALLK)
            n = rng.randint(4, 6)
            rows = gen.random_table(rng, k, n, rng.randint(30, 80), alphabet="ACGT")
            for ri_, r in enumerate(rows):
                if ri_ % 3 == 0:
                    r[1] = [r[1][0], r[1][1]] + [45] * (n - 2)                      # shared by the first two samples only
                else:
                    own = 2 + ri_ % (n - 2)
                    r[1] = [45] * own + [r[1][own]] + [45] * (n - own - 1)          # private to one of the others
            sb.reset()
            sb.import_table("x", k, True, ["e%d_%d" % (pi, i) for i in range(n)], rows)
            for minf in ([2000 // n, 1000], [500, 1000] if n == 4 else [400, 1000]):
                sb.distance("x", n, minf, allow_ambig=bool(pi % 2), threads=1 + pi % 3)
                run.evaluations += 1
                run.nontriv([rows, minf])
        # --min-freq left out (default 0: nothing is ignored) on files with many samples, where even a small non-zero
        # threshold would already drop the k-mers private to one sample
        for pi, n in enumerate([11, 12] if tier == "quick" else [7, 9, 10, 11, 11, 12, 12, 12]):
            k = rng.choice(gen.ALLK)
            rows = gen.random_table(rng, k, n, rng.randint(30, 90), alphabet="AAAACCGT---")
            for ri_, r in enumerate(rows):
                if ri_ % 3 == 0:
                    own = ri_ % n
                    r[1] = [45] * own + [r[1][own] if r[1][own] != 45 else 67] + [45] * (n - own - 1)   # private to one sample
            sb.reset()
            sb.import_table("x", k, True, ["d%d_%d" % (pi, i) for i in range(n)], rows)
            sb.distance("x", n, [0, 1000], allow_ambig=bool(pi % 2), threads=1 + pi % 2, default_minf=True)
            run.evaluations += 1
            run.nontriv([rows, "default"])
        # a table with more than a thousand variable rows, run with several pool sizes (block-wise or chunked
        # accumulation must not depend on the thread count or lose a remainder)
        n, k = 3, 21
        rows = gen.random_table(rng, k, n, 1101 if tier == "quick" else 4099, alphabet="ACGT-")
        rows = [[r[0], r[1] if len(set(r[1])) > 1 else [65, 67, 45]] for r in rows]
        sb.reset()
        sb.import_table("x", k, True, ["big0", "big1", "big2"], rows)
        for th in ([2, 3] if tier == "quick" else [1, 2, 3, 5, 7, 16]):
            sb.distance("x", n, [0, 1000], allow_ambig=(th % 2 == 1), threads=th)
            run.evaluations += 1
        events = sb.events
    finally:
        sb.close()
    validate(run, events, "c14", tier)


def replay(run, path):
    case = json.load(open(path))["case"]
    if case.get("kind") == "replay":
        v = vlib.skav("replay", [case["behaviour"]])[0]
        run.evaluations += 1
        if not v.get("ok"):
            run.fail(case, "replayed behaviour still diverges: %s" % v.get("why"))
    else:
        rerun_episode(run, case, "c14r")
