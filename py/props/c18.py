"""C18 - ska lo indel calls are real and genotyped correctly."""
import os, json
import vlib, lodrv
from props import c17


def run(run, tier, seed):
    run.rule = ("relational: Lo.tla states the C18 relation: for every record, before+REF+after (either strand) occurs in exactly "
                "the samples genotyped 0 and before+ALT+after in exactly those genotyped 1 (0/1 = both, '.' = neither); every record "
                "maps injectively to a planted indel (same length, allele a rotation of the planted bases on either strand, same "
                "long-form samples). traces: ancestors with unique (k-1)-mers, 1-3 planted insertions/deletions of 1-10 bases >= 4k "
                "apart, 3-8 samples, k in {11,15,21,31}, threads 1..4; reported/planted are summed for the 90% bound. non-trivial = "
                "precondition holds, an indel with a proper non-empty carrier set; distinct by scenario")
    run.assumptions = ["'at least 90% of the planted indels are reported' is read as an aggregate over the run",
                       "precondition: every derived sample has unique (k-1)-mers on both strands (coordinates shift behind an indel)",
                       "no implementation-shaped model of the graph algorithm"]
    d = vlib.design_check("MC_AlignSnp", "MC_AlignSnp_small", "c18-rel", workers=8, timeout=900)
    run.add_design(d)
    events = lodrv.indel_events(run, tier, seed + 18, "c18")
    c17.finish(run, events, "c18", tier)
    for label, pk, rk in (("generic", "indels_planted", "indels_reported"), ("tandem", "tandem_indels_planted", "tandem_indels_reported")):
        planted, reported = run.extra[pk], run.extra[rk]
        if planted >= 10 and reported * 10 < planted * 9:
            run.fail({"kind": "completeness", "stratum": label, "planted": planted, "reported": reported},
                     "only %d of %d planted %s indels were reported (< 90%%)" % (reported, planted, label))


def replay(run, path):
    return globals()["run"](run, "quick", int(os.environ.get("VERIF_SEED", "20260926")))
