"""C18 - ska lo indel calls are real and genotyped correctly."""
import os, json
import vlib, lodrv, derive
from props import c17


def run(run, tier, seed):
    run.rule = ("design: MC_LoIndel - LoGraph's traversal (multigraph, compaction, depth-first path enumeration, grouping) on every "
                "deletion / tandem duplication of 1-2 (thorough 3) bases at every position of two 24-base ancestors x carrier sets x an "
                "optional substitution 2 or k bases further; the indel and SNP groups of each scenario are replayed into the hooked "
                "`ska lo` (hook lo.groups). relational: Lo.tla states the C18 relation: for every record, before+REF+after (either strand) occurs in exactly "
                "the samples genotyped 0 and before+ALT+after in exactly those genotyped 1 (0/1 = both, '.' = neither); every record "
                "maps injectively to a planted indel (same length, allele a rotation of the planted bases on either strand, same "
                "long-form samples). traces: ancestors with unique (k-1)-mers, 1-3 planted insertions/deletions of 1-10 bases >= 4k "
                "apart, 3-8 samples, k in {11,15,21,31}, threads 1..4; reported/planted are summed for the 90% bound, overall and for the "
                "classes (k=11, 10 bases), (other k, 10 bases), (1 base), (three like single-base indels). non-trivial = "
                "precondition holds, an indel with a proper non-empty carrier set; distinct by scenario")
    run.assumptions = ["'at least 90% of the planted indels are reported' is read as an aggregate over the run and over each named class of the stated domain",
                       "precondition: every derived sample has unique (k-1)-mers on both strands (coordinates shift behind an indel)",
                       "graph construction, extremities, compaction and path enumeration are modelled (LoGraph.tla) and replayed; indel de-replication and "
                       "allele extraction (process_indels.rs) are not: the relation is evaluated on recorded runs"]
    d = vlib.design_check("MC_AlignSnp", "MC_AlignSnp_small", "c18-rel", workers=8, timeout=900)
    run.add_design(d)
    # the traversal stage on the indel universe: LoGraph!BuiltGroups on every deletion / tandem duplication (optionally with a
    # substitution next to it) of MC_LoIndel; the hooked `ska lo` must build the same SNP groups and indel groups
    c17.replay_entries(run, tier, seed, module="MC_LoIndel", tag="c18-graph", nq=300, nt=20000, declarative=False)   # k = 5 is outside C18's k-domain: conformance only
    events = lodrv.indel_events(run, tier, seed + 18, "c18")
    if tier != "quick":
        # the same universe INSIDE C18's stated domain (k = 11, a 52-base ancestor with unique 10-mers): every deletion / tandem
        # duplication of 1-4 bases at every position x every carrier set of 3 samples; besides the conformance replay each run
        # becomes a planted-indel event whose records TLC judges by C18's own clauses (real difference, matches the planted
        # indel, not reported twice; counted for the 90 % clause)
        extra = []
        c17.replay_entries(run, tier, seed, module="MC_LoIndel", tag="c18-graph11", nt=20000, declarative=False,
                           cfg="MC_LoIndel_k11", indel_events=extra)
        pre = derive.mers_unique_per_position
        for e in extra:
            e["ctx"]["pre_strict"] = all(pre([[{"seq": bytes(r["seq"]).decode(), "off": 0, "rev": False} for r in recs]][:1], e["ctx"]["k"] - 1)
                                         for recs in e["ctx"]["samples"])
        events += extra
    c17.finish(run, events, "c18", tier)
    # classes of the stated domain with their own count: the longest indel "shorter than k" (10 bases at k = 11), the
    # longest stated length at the other k, and single bases. Each is a population of genome sets the property quantifies
    # over, so each must reach the 90 % by itself (same test as below).
    classes = []
    nq = 8 if tier == "quick" else 60
    # ... and "triplets": three single-base indels of the same base in the same samples, 4k apart - different indels whose
    # REF / ALT / genotype fields read alike
    for label, ks, ln in (("k11_len10", [11], 10), ("k15to31_len10", [15, 21, 31], 10), ("len1", [11, 15, 21, 31], 1),
                          ("triplets", [11, 15, 21, 31], 1)):
        evs = lodrv.indel_events(run, tier, seed + 1800 + ln + ks[0] + len(label), "c18" + label, ks=ks, fixed_len=ln, n=nq,
                                 twins=(label == "triplets"))
        ok, bad, states = vlib.validate_trace("Trace_Lo", evs, "c18-" + label, shards=4, timeout=1500)
        run.states += states
        run.transitions += len(evs)
        run.events += ok
        run.traces_validated += ok
        for i in bad:
            e = evs[i]
            c = e.get("ctx", {})
            run.fail({"kind": "trace", "event": e, "pre_literal": True, "pre_strict": bool(c.get("pre_strict", True)), "ev": e["ev"]},
                     "%s rejected (%s): k=%s threads=%s panic=%s" % (e["ev"], label, c.get("k"), c.get("threads"), e.get("panic", "")[-120:]))
        classes.append((label, vlib.LAST_EXTRA.get("planted", 0), vlib.LAST_EXTRA.get("reported", 0)))
    # "at least 90% reported" is a statement about a rate; a run observes a finite sample of it. To keep sampling
    # noise from raising an alarm, a stratum fails only when the observed count is significantly below 90%
    # (one-sided binomial test, p < 0.001 under a true rate of exactly 0.9).
    from math import comb

    def too_few(planted, reported):
        # P[Binomial(planted, 0.9) <= reported], summed in log space (planted can be in the thousands)
        from math import lgamma, log, exp
        if not (planted >= 10 and reported * 10 < planted * 9):
            return False
        lp = [lgamma(planted + 1) - lgamma(i + 1) - lgamma(planted - i + 1) + i * log(0.9) + (planted - i) * log(0.1)
              for i in range(0, min(reported, planted) + 1)]
        m = max(lp)
        return m + log(sum(exp(x - m) for x in lp)) < log(0.001)
    for label, pk, rk in (("generic", "indels_planted", "indels_reported"), ("tandem", "tandem_indels_planted", "tandem_indels_reported")):
        planted, reported = run.extra[pk], run.extra[rk]
        run.extra[label + "_recall_test"] = "planted=%d reported=%d" % (planted, reported)
        if too_few(planted, reported):
            run.fail({"kind": "completeness", "stratum": label, "planted": planted, "reported": reported},
                     "only %d of %d planted %s indels were reported (< 90%%)" % (reported, planted, label))
    for label, planted, reported in classes:
        run.extra[label + "_recall_test"] = "planted=%d reported=%d" % (planted, reported)
        if too_few(planted, reported):
            run.fail({"kind": "completeness", "stratum": label, "planted": planted, "reported": reported},
                     "only %d of %d planted indels of class %s were reported (< 90%%)" % (reported, planted, label))


def replay(run, path):
    return globals()["run"](run, "quick", int(os.environ.get("VERIF_SEED", "20260926")))
