"""C17 - ska lo SNP calls are real, complete for isolated SNPs, and well formed."""
import os, json
import vlib, lodrv


def run(run, tier, seed):
    run.rule = ("relational: Lo.tla states the C17 relation (one column per variable site up to order and strand; with a "
                "reference: VCF record at the true coordinate with the true alleles, pseudo-genomes = ancestor with the sample's "
                "alleles; well-formedness of every run) and the precondition (contiguous (k-1)-mers unique per position and "
                "strand over all derived samples, sites >= 2k apart and >= k inside a contig). traces: ancestors of up to 500 "
                "(quick) / 1500 bases, 1-10 sites, 3-10 samples, k in 7..33, reference mode for k>=15, threads 1..8, -m in "
                "{default,0,0.1,0.4}; plus arbitrary inputs (close SNPs, indels) for which only well-formedness is required. "
                "TLC re-derives the samples, evaluates the precondition and compares. There is no implementation-shaped model "
                "of the graph algorithm. non-trivial = precondition holds and >=1 site with >=2 alleles; distinct by scenario")
    run.assumptions = ["the acceptance precondition is the strict one (uniqueness over all derived samples); ancestor-only cases that fail "
                       "are reported under known finding K17", "FASTA/VCF output parsed by the driver",
                       "graph construction, extremity nodes, compaction and path enumeration are modelled in LoGraph.tla and replayed into the "
                       "hooked binary; SNP de-duplication across groups, positioning and output are not: the relation is evaluated on recorded runs"]
    d = vlib.design_check("MC_AlignSnp", "MC_AlignSnp_small", "c17-rel", workers=8, timeout=900)
    run.add_design(d)
    replay_entries(run, tier, seed)
    replay_ref(run, tier, seed)
    events = lodrv.snp_events(run, tier, seed + 17, "c17")
    # scenarios where only the ancestor satisfies the uniqueness precondition are skipped by the trace
    # specification; classify them here (known finding K17 when the columns are wrong)
    from props.c03 import columns_ok
    for e in events:
        c = e.get("ctx", {})
        if e["ev"] == "lo.snps" and not c.get("pre_strict") and e.get("panic") == "":
            ev2 = {"ctx": c, "ok": True, "names": e["names"], "seqs": e["seqs"]}
            if not columns_ok(ev2):
                run.fail({"kind": "literal", "pre_literal": True, "pre_strict": False, "event": e},
                         "ancestor-only precondition holds, strict fails, and the SNP columns differ (k=%d)" % c["k"])
    finish(run, events, "c17", tier)


def replay_entries(run, tier, seed, module="MC_LoGraph", tag="c17-graph", nq=400, nt=6000):
    """B for the first two stages of ska lo: MC_LoGraph's scenarios (graph construction + entry nodes, checked by
    TLC against 'the (k-1)-mers flanking each variable site') are run through `ska build -k 5` + `ska lo`; the
    hooked binary logs its entry nodes, which must be the model's."""
    import random, concurrent.futures, skacli
    from props.c11 import run_cmd
    d = vlib.design_check(module, module + "_quick" if tier == "quick" else module, tag, workers=12,
                          timeout=3000, want_replay=True)
    run.add_design(d)
    behs = d["replay"]
    rng = random.Random(seed)
    rng.shuffle(behs)
    behs = behs[:int(os.environ.get("VERIF_LOGRAPH_N", nq if tier == "quick" else nt))]
    sb = skacli.Sandbox("c17g")

    def one(args):
        i, beh = args
        sub = skacli.Sandbox("c17g%d" % i)
        try:
            sub.reset()
            samples = [[bytes(x).decode()] for x in beh["samples"]]
            e = sub.build("g", samples, ["g%d" % j for j in range(len(samples))], beh["k"], True)
            if not e.get("ok"):
                return {"ok": False, "why": "build failed"}
            tr = os.path.join(sub.dir, "tr.ndjson")
            rc, so, se, hook = run_cmd(["lo", sub.path("g"), os.path.join(sub.dir, "out")], tr)
            ent = [h for h in hook if h["ev"] == "lo.entries"]
            if len(ent) != 1:
                return {"ok": False, "why": "no lo.entries event (rc=%d): %s" % (rc, se.decode(errors="replace")[-150:])}
            got = sorted(vlib.digits(x) for x in ent[0]["entries"])
            want = sorted(beh["entries"])
            if got != want or ent[0]["nodes"] != beh["nodes"]:
                return {"ok": False, "why": "entry nodes differ", "expected": [want, beh["nodes"]], "actual": [got, ent[0]["nodes"]]}
            # third stage: the variant groups and indel groups after traversal (hook lo.groups) against LoGraph!FinalGroups /
            # FinalIndels - entry, exit and the multiset of spelled paths of every group
            letters = lambda ds: "".join("ACTG"[d] for d in ds)
            for kind in ("groups", "indels"):
                real = [h for h in hook if h["ev"] == "lo.groups" and h["kind"] == kind]
                if len(real) != 1:
                    return {"ok": False, "why": "no lo.groups event for " + kind}
                g_real = sorted([g["entry"], g["exit"], sorted(g["seqs"])] for g in real[0]["groups"])
                g_model = sorted([letters(g["entry"]), letters(g["exit"]), sorted(letters(q) for q in g["seqs"])] for g in beh[kind])
                if g_real != g_model:
                    return {"ok": False, "why": "variant %s differ from LoGraph's" % kind, "expected": g_model, "actual": g_real}
            # fourth stage: the calls themselves (LoCall.tla): the multiset of SNP columns and the set of indel records
            if "columns" in beh:
                out = os.path.join(sub.dir, "out")
                if beh["panic"]:
                    return {"ok": rc != 0, "why": "LoCall says the code indexes a path out of range here, but the run succeeded"}
                if rc != 0:
                    return {"ok": False, "why": "ska lo failed: " + se.decode(errors="replace")[-150:]}
                nm, seqs = vlib.parse_fasta_text(open(out + "_snps.fas").read()) if os.path.exists(out + "_snps.fas") else ([], [])
                n = len(seqs[0]) if seqs else 0
                c_real = sorted("".join(x[j] for x in seqs) for j in range(n))
                c_model = sorted("".join(chr(x) for x in col) for col in beh["columns"])
                if c_real != c_model:
                    return {"ok": False, "why": "SNP columns differ from LoCall's", "expected": c_model, "actual": c_real}
                r_real = sorted([r["ref"], r["alt"], r["before"], r["after"], r["gts"]] for r in lodrv.parse_indel_vcf(open(out + "_indels.vcf").read()))
                gt = {0: "0", 1: "1", 2: "0/1", 3: "."}
                by = lambda ds: [ord(c) for c in letters(ds)]
                r_model = sorted([by(r["ref"]), by(r["alt"]), by(r["before"]), by(r["after"]), [gt[x] for x in r["gts"]]]
                                 for r in beh["records"])
                if r_real != r_model:
                    return {"ok": False, "why": "indel records differ from LoCall's", "expected": r_model, "actual": r_real}
            return {"ok": True}
        finally:
            sub.close()

    try:
        with concurrent.futures.ThreadPoolExecutor(max_workers=12) as ex:
            res = list(ex.map(one, list(enumerate(behs))))
    finally:
        sb.close()
    run.replayed += len(behs)
    for beh, v in zip(behs, res):
        if not v["ok"]:
            run.fail({"kind": "replay", "behaviour": beh, "verdict": v}, "ska lo entry nodes diverge from LoGraph: %s" % v["why"])
        else:
            run.nontriv(["entries", beh["samples"]])
    if behs:
        run.sample({"replayed_behaviour": behs[0]})


def replay_ref(run, tier, seed):
    """B for `ska lo -r`: MC_LoRef's scenarios (LoCall!LoCallRef at k = 7; design theorem: a placed site is at its true
    coordinate with the true alleles and the pseudo-genomes are the reference with each sample's allele) through
    `ska build -k 7` + `ska lo -r ref.fa`: SNP alignment, VCF records and pseudo-genomes must be the model's."""
    import random, concurrent.futures, skacli
    d = vlib.design_check("MC_LoRef", "MC_LoRef_quick" if tier == "quick" else "MC_LoRef", "c17-ref", workers=12,
                          timeout=3000, want_replay=True)
    run.add_design(d)
    behs = d["replay"]
    rng = random.Random(seed + 1)
    rng.shuffle(behs)
    behs = behs[:int(os.environ.get("VERIF_LOREF_N", 250 if tier == "quick" else 8000))]

    def one(args):
        i, beh = args
        sub = skacli.Sandbox("c17r%d" % i)
        try:
            sub.reset()
            samples = [[bytes(x).decode()] for x in beh["samples"]]
            e = sub.build("g", samples, ["g%d" % j for j in range(len(samples))], beh["k"], True)
            if not e.get("ok"):
                return {"ok": False, "why": "build failed"}
            ref = os.path.join(sub.dir, "ref.fa")
            open(ref, "w").write(">anc\n%s\n" % bytes(beh["ref"]).decode())
            out = os.path.join(sub.dir, "out")
            rc, so, se = vlib.ska_cli(["lo", sub.path("g"), out, "-r", ref])
            if beh["panic"]:
                return {"ok": rc != 0, "why": "LoCallRef says the code indexes a path out of range here, but the run succeeded"}
            if rc != 0:
                return {"ok": False, "why": "ska lo -r failed: " + se.decode(errors="replace")[-150:]}
            nm, seqs = vlib.parse_fasta_text(open(out + "_snps.fas").read())
            n = len(seqs[0]) if seqs else 0
            c_real = ["".join(x[j] for x in seqs) for j in range(n)]
            c_model = ["".join(chr(x) for x in col) for col in beh["columns"]]
            if c_real != c_model:
                return {"ok": False, "why": "SNP alignment differs from LoCallRef's", "expected": c_model, "actual": c_real}
            v_real = []
            for line in open(out + "_snps.vcf"):
                if not line.startswith("#"):
                    f = line.rstrip("\n").split("\t")
                    v_real.append([int(f[1]), f[3], f[4], f[9:]])
            v_model = [[r["pos"], chr(r["ref"]), ",".join(chr(x) for x in r["alt"]), ["." if x < 0 else str(x) for x in r["gts"]]]
                       for r in beh["vcf"]]
            if v_real != v_model:
                return {"ok": False, "why": "VCF records differ from LoCallRef's", "expected": v_model, "actual": v_real}
            pn, pseq = vlib.parse_fasta_text(open(out + "_pseudo_genomes.fas").read())
            p_model = ["".join(chr(x) for x in s_) for s_ in beh["pseudo"]]
            if pseq != p_model:
                return {"ok": False, "why": "pseudo-genomes differ from LoCallRef's", "expected": p_model, "actual": pseq}
            return {"ok": True}
        finally:
            sub.close()

    with concurrent.futures.ThreadPoolExecutor(max_workers=12) as ex:
        res = list(ex.map(one, list(enumerate(behs))))
    run.replayed += len(behs)
    for beh, v in zip(behs, res):
        if not v["ok"]:
            run.fail({"kind": "replay", "behaviour": beh, "verdict": v}, "ska lo -r diverges from LoCallRef: %s" % v["why"])
        elif beh["placed"]:
            run.nontriv(["loref", beh["samples"], beh["ref"]])
    run.extra["loref_scenarios_placed"] = sum(1 for b_ in behs if b_["placed"])


def finish(run, events, tag, tier):
    ok, bad, states = vlib.validate_trace("Trace_Lo", events, tag, shards=12 if tier == "quick" else 16, timeout=3000)
    run.states += states
    run.transitions += len(events)
    run.events += ok
    run.traces_validated += ok
    run.extra["scenarios_with_strict_precondition"] = sum(1 for e in events if e.get("ctx", {}).get("pre_strict"))
    run.extra["indels_planted"] = vlib.LAST_EXTRA.get("planted", 0)
    run.extra["indels_reported"] = vlib.LAST_EXTRA.get("reported", 0)
    run.extra["tandem_indels_planted"] = vlib.LAST_EXTRA.get("plantedT", 0)
    run.extra["tandem_indels_reported"] = vlib.LAST_EXTRA.get("reportedT", 0)
    for e in events:
        if e["ev"] in ("lo.snps", "lo.indels") and e.get("panic") == "":
            c = e["ctx"]
            s = {"ev": e["ev"], "k": c["k"], "threads": c.get("threads"), "pre_strict": c["pre_strict"]}
            if e["ev"] == "lo.snps":
                s.update({"sites": c["sites"], "alleles": ["".join(map(chr, x)) for x in c["alleles"]], "refmode": c["refmode"],
                          "snps": ["".join(map(chr, x)) for x in e["seqs"]]})
            else:
                s.update({"planted": [{"len": p["len"], "kind": p["kind"], "long": p["long"]} for p in c["planted"]],
                          "records": [{"ref": "".join(map(chr, r["ref"])), "alt": "".join(map(chr, r["alt"])), "gts": r["gts"]} for r in e["records"]]})
            run.sample(s, limit=3)
            break
    for i in bad:
        e = events[i]
        c = e.get("ctx", {})
        case = {"kind": "trace", "event": e, "pre_literal": bool(c.get("pre_literal", True)), "pre_strict": bool(c.get("pre_strict", True)), "ev": e["ev"]}
        run.fail(case, "%s rejected: k=%s threads=%s pre_strict=%s panic=%s" % (e["ev"], c.get("k"), c.get("threads"), c.get("pre_strict"), e.get("panic", "")[-120:]))


def replay(run, path):
    return globals()["run"](run, "quick", int(os.environ.get("VERIF_SEED", "20260926")))
