"""C17 - ska lo SNP calls are real, complete for isolated SNPs, and well formed."""
import os, json
import vlib, lodrv


def run(run, tier, seed):
    run.rule = ("relational: Lo.tla states the C17 relation (one column per variable site up to order and strand; with a "
                "reference: VCF record at the true coordinate with the true alleles, pseudo-genomes = ancestor with the sample's "
                "alleles; well-formedness of every run) and the precondition (contiguous (k-1)-mers unique per position and "
                "strand over all derived samples, sites >= 2k apart and >= k inside a contig). traces: ancestors of up to 500 "
                "(quick) / 1500 bases, 1-10 sites, 3-10 samples, k in 7..33, reference mode for k>=15, threads 1..8, -m in "
                "{default,0,0.1,0.4}; plus arbitrary inputs (close SNPs, indels) for which only well-formedness is required. "
                "TLC re-derives the samples, evaluates the precondition and compares. There is no implementation-shaped model "
                "of the graph algorithm. non-trivial = precondition holds and >=1 site with >=2 alleles; distinct by scenario")
    run.assumptions = ["the acceptance precondition is the strict one (uniqueness over all derived samples); ancestor-only cases that fail "
                       "are reported under known finding K17", "FASTA/VCF output parsed by the driver",
                       "graph construction, extremity nodes, compaction and path enumeration are modelled in LoGraph.tla and replayed into the "
                       "hooked binary; SNP de-duplication across groups, positioning and output are not: the relation is evaluated on recorded runs"]
    d = vlib.design_check("MC_AlignSnp", "MC_AlignSnp_small", "c17-rel", workers=8, timeout=900)
    run.add_design(d)
    replay_entries(run, tier, seed)
    replay_ref(run, tier, seed)
    if tier != "quick":
        # the reference mode inside C17's stated domain: every site of a 50-base ancestor at k = 15 (960 scenarios)
        replay_ref(run, tier, seed, cfg="MC_LoRef_k15", declarative=True, tag="c17-ref15")
    events = lodrv.snp_events(run, tier, seed + 17, "c17")
    # scenarios where only the ancestor satisfies the uniqueness precondition are skipped by the trace
    # specification; classify them here (known finding K17 when the columns are wrong)
    from props.c03 import columns_ok
    for e in events:
        c = e.get("ctx", {})
        if e["ev"] == "lo.snps" and not c.get("pre_strict") and e.get("panic") == "":
            ev2 = {"ctx": c, "ok": True, "names": e["names"], "seqs": e["seqs"]}
            if not columns_ok(ev2):
                run.fail({"kind": "literal", "pre_literal": True, "pre_strict": False, "event": e},
                         "ancestor-only precondition holds, strict fails, and the SNP columns differ (k=%d)" % c["k"])
    finish(run, events, "c17", tier)


def _wellformed(cols, nsamp, mnum=100, mden=1000):
    """C17's clause for every run: every column has >= 2 distinct A/C/G/T and at most the allowed fraction of others"""
    for c in cols:
        if len(c) != nsamp or len({x for x in c if x in "ACGT"}) < 2:
            return False
        if sum(1 for x in c if x not in "ACGT") * mden > mnum * nsamp:
            return False
    return True


_COMP = str.maketrans("ACGT", "TGCA")


def _canon(cols):
    return sorted(min(c, c.translate(_COMP)) for c in cols)


def replay_entries(run, tier, seed, module="MC_LoGraph", tag="c17-graph", nq=400, nt=6000, declarative=True, cfg=None, indel_events=None):
    """B for `ska lo` without a reference: the scenarios of a TLC universe run through `ska build` + the hooked `ska lo`.

    Two kinds of outcome are kept apart (DESIGN I.8):
    * CONFORMANCE of the implementation-shaped model (LoGraph/LoCall): entry nodes, SNP groups, indel groups (hooks), SNP
      columns and indel records (files) are compared with the model's; a difference is MODEL DRIFT (the model no longer
      describes the code): counted, printed, never a violation - a change of heuristics that keeps the property is not an alarm.
    * the property's own DECLARATIVE clauses, where the scenario lies in its stated domain (`declarative`, C17 at k = 7): under
      the precondition the SNP alignment must consist of exactly the true columns of the substituted sites (up to order and
      complement); in every run every column must be well formed; the command must not fail. These are violations."""
    import random, concurrent.futures, skacli
    from props.c11 import run_cmd
    d = vlib.design_check(module, cfg or (module + "_quick" if tier == "quick" else module), tag, workers=12,
                          timeout=3000, want_replay=True)
    run.add_design(d)
    behs = d["replay"]
    rng = random.Random(seed)
    rng.shuffle(behs)
    behs = behs[:int(os.environ.get("VERIF_LOGRAPH_N", nq if tier == "quick" else nt))]
    letters = lambda ds: "".join("ACTG"[x] for x in ds)
    made = {}

    def one(args):
        i, beh = args
        sub = skacli.Sandbox("%s%d" % (tag.replace("-", ""), i))
        drift, decl = [], None
        try:
            sub.reset()
            samples = [[bytes(x).decode()] for x in beh["samples"]]
            nsamp = len(samples)
            e = sub.build("g", samples, ["g%d" % j for j in range(nsamp)], beh["k"], True)
            if not e.get("ok"):
                return {"drift": ["build failed"], "decl": None}
            tr = os.path.join(sub.dir, "tr.ndjson")
            out = os.path.join(sub.dir, "out")
            rc, so, se, hook = run_cmd(["lo", sub.path("g"), out], tr)
            err = se.decode(errors="replace")
            refused = rc != 0 and "no entry node" in err
            # ---- conformance with the model -------------------------------------------------------------------
            ent = [h for h in hook if h["ev"] == "lo.entries"]
            if len(ent) != 1:
                drift.append("no lo.entries event")
            elif sorted(vlib.digits(x) for x in ent[0]["entries"]) != sorted(beh["entries"]) or ent[0]["nodes"] != beh["nodes"]:
                drift.append("entry nodes")
            for kind in ("groups", "indels"):
                real = [h for h in hook if h["ev"] == "lo.groups" and h["kind"] == kind]
                if len(real) != 1:
                    if not refused:
                        drift.append("no lo.groups event")
                    continue
                g_real = sorted([g["entry"], g["exit"], sorted(g["seqs"])] for g in real[0]["groups"])
                g_model = sorted([letters(g["entry"]), letters(g["exit"]), sorted(letters(q) for q in g["seqs"])] for g in beh[kind])
                if g_real != g_model:
                    drift.append("variant " + kind)
            c_real = None
            if rc == 0:
                nm, seqs = vlib.parse_fasta_text(open(out + "_snps.fas").read()) if os.path.exists(out + "_snps.fas") else ([], [])
                n = len(seqs[0]) if seqs else 0
                c_real = sorted("".join(x[j] for x in seqs) for j in range(n))
            if "columns" in beh:
                if beh["panic"]:
                    if rc == 0:
                        drift.append("model predicts an out-of-range index, the run succeeded")
                elif rc != 0:
                    if not (refused and not beh["entries"]):
                        drift.append("run failed where the model yields calls")
                else:
                    if c_real != sorted("".join(chr(x) for x in col) for col in beh["columns"]):
                        drift.append("SNP columns")
                    r_real = sorted([r["ref"], r["alt"], r["before"], r["after"], r["gts"]]
                                    for r in lodrv.parse_indel_vcf(open(out + "_indels.vcf").read()))
                    gt = {0: "0", 1: "1", 2: "0/1", 3: "."}
                    by = lambda ds: [ord(c) for c in letters(ds)]
                    r_model = sorted([by(r["ref"]), by(r["alt"]), by(r["before"]), by(r["after"]), [gt[x] for x in r["gts"]]]
                                     for r in beh["records"])
                    if r_real != r_model:
                        drift.append("indel records")
                    if indel_events is not None and "anc" in beh:
                        # the scenario as a planted-indel event for Trace_Lo (C18's own clauses, evaluated by TLC)
                        anc_s = bytes(beh["anc"]).decode()
                        p0, ln, car = beh["pos"], beh["len"], set(beh["car"])
                        unit = anc_s[p0:p0 + ln]
                        long_ = sorted(car) if beh["dup"] else sorted(set(range(1, nsamp + 1)) - car)
                        made[i] = {"ev": "lo.indels", "id": 5000 + i,
                                   "ctx": {"k": beh["k"], "names": ["g%d" % j for j in range(nsamp)],
                                           "samples": [[{"seq": list(x), "off": 0, "rev": False}] for x in beh["samples"]],
                                           "pre_strict": None, "threads": 1, "stratum": "tandem" if beh["dup"] else "generic",
                                           "planted": [{"len": ln, "seq": [ord(c) for c in unit], "long": long_,
                                                        "kind": "ins" if beh["dup"] else "del", "pos": p0}]},
                                   "panic": "", "records": lodrv.parse_indel_vcf(open(out + "_indels.vcf").read())}
            # ---- the property's own clauses ---------------------------------------------------------------------
            if declarative:
                if rc != 0 and not refused:
                    decl = "ska lo failed: " + err[-150:]
                elif rc == 0 and not _wellformed(c_real, nsamp):
                    decl = "a column of the SNP alignment is not well formed: %s" % c_real
                elif beh.get("pre"):
                    truth = ["".join(chr(x) for x in col) for col in beh["truth"] if len(set(col)) > 1]
                    if rc != 0 or _canon(c_real) != _canon(truth):
                        decl = "precondition holds: SNP alignment %s is not the true columns %s" % (c_real, truth)
            return {"drift": drift, "decl": decl}
        finally:
            sub.close()

    with concurrent.futures.ThreadPoolExecutor(max_workers=12) as ex:
        res = list(ex.map(one, list(enumerate(behs))))
    run.replayed += len(behs)
    ndrift = 0
    for beh, v in zip(behs, res):
        if v["decl"]:
            run.fail({"kind": "replay", "behaviour": beh, "verdict": v}, "ska lo on a TLC scenario: %s" % v["decl"])
        if v["drift"]:
            ndrift += 1
            if ndrift <= 3:
                vlib.log("MODEL DRIFT (%s): %s differ from the model on samples %s" %
                         (module, ", ".join(v["drift"]), [bytes(x).decode() for x in beh["samples"]]))
        if not v["decl"] and not v["drift"]:
            run.nontriv(["lo-replay", module, beh["samples"]])
    if indel_events is not None:
        indel_events.extend(made[i] for i in sorted(made))
    run.drift += ndrift
    run.extra["%s_scenarios_replayed" % module] = len(behs)
    run.extra["%s_scenarios_with_model_drift" % module] = ndrift
    if behs:
        run.sample({"replayed_behaviour": {k_: behs[0][k_] for k_ in ("k", "samples", "entries", "columns") if k_ in behs[0]}})


def replay_ref(run, tier, seed, cfg=None, declarative=False, tag="c17-ref"):
    """Conformance of LoCall!LoCallRef (`ska lo -r`) on MC_LoRef's scenarios (k = 7; design theorem: a placed site is at its
    true coordinate with the true alleles and the pseudo-genomes are the reference with each sample's allele): SNP alignment,
    VCF records and pseudo-genomes of the real run are compared with the model's. Reference mode below k = 15 is outside C17's
    stated domain: differences are MODEL DRIFT, not violations (the declarative verdicts for -r come from the lo.snps events)."""
    import random, concurrent.futures, skacli
    d = vlib.design_check("MC_LoRef", cfg or ("MC_LoRef_quick" if tier == "quick" else "MC_LoRef"), tag, workers=12,
                          timeout=3000, want_replay=True)
    run.add_design(d)
    behs = d["replay"]
    rng = random.Random(seed + 1)
    rng.shuffle(behs)
    behs = behs[:int(os.environ.get("VERIF_LOREF_N", 250 if tier == "quick" else 8000))]

    def one(args):
        i, beh = args
        sub = skacli.Sandbox("c17r%d" % i)
        try:
            sub.reset()
            samples = [[bytes(x).decode()] for x in beh["samples"]]
            e = sub.build("g", samples, ["g%d" % j for j in range(len(samples))], beh["k"], True)
            if not e.get("ok"):
                return ["build failed"]
            ref = os.path.join(sub.dir, "ref.fa")
            open(ref, "w").write(">anc\n%s\n" % bytes(beh["ref"]).decode())
            out = os.path.join(sub.dir, "out")
            rc, so, se = vlib.ska_cli(["lo", sub.path("g"), out, "-r", ref])
            if declarative and beh["pre"]:
                # C17 with a reference, inside its stated domain (k >= 15): the site is reported at its true coordinate with
                # the true alleles, the SNP alignment is that one column, the pseudo-genomes carry each sample's allele there
                why = None
                if rc != 0:
                    why = "ska lo -r failed: " + se.decode(errors="replace")[-100:]
                else:
                    nm_, sq_ = vlib.parse_fasta_text(open(out + "_snps.fas").read())
                    cols_ = ["".join(x[j] for x in sq_) for j in range(len(sq_[0]) if sq_ else 0)]
                    truecol = "".join(chr(x) for x in beh["truecol"])
                    recs_ = [l.rstrip("\n").split("\t") for l in open(out + "_snps.vcf") if not l.startswith("#")]
                    pn_, ps_ = vlib.parse_fasta_text(open(out + "_pseudo_genomes.fas").read())
                    if cols_ != [truecol]:
                        why = "SNP alignment %s is not the true column %s" % (cols_, truecol)
                    elif len(recs_) != 1 or int(recs_[0][1]) != beh["truepos"] + 1 or recs_[0][3] != chr(beh["trueref"]):
                        why = "VCF record %s is not at the true coordinate %d with REF %s" % (recs_, beh["truepos"] + 1, chr(beh["trueref"]))
                    elif any(ps_[i][beh["truepos"]] != truecol[i] for i in range(len(ps_))):
                        why = "pseudo-genomes do not carry the samples' alleles at the site"
                if why:
                    return {"decl": why}
            if beh["panic"]:
                return [] if rc != 0 else ["model predicts an out-of-range index, the run succeeded"]
            if rc != 0:
                return ["run failed: " + se.decode(errors="replace")[-100:]]
            drift = []
            nm, seqs = vlib.parse_fasta_text(open(out + "_snps.fas").read())
            n = len(seqs[0]) if seqs else 0
            if ["".join(x[j] for x in seqs) for j in range(n)] != ["".join(chr(x) for x in col) for col in beh["columns"]]:
                drift.append("SNP alignment")
            v_real = []
            for line in open(out + "_snps.vcf"):
                if not line.startswith("#"):
                    f = line.rstrip("\n").split("\t")
                    v_real.append([int(f[1]), f[3], f[4], f[9:]])
            v_model = [[r["pos"], chr(r["ref"]), ",".join(chr(x) for x in r["alt"]), ["." if x < 0 else str(x) for x in r["gts"]]]
                       for r in beh["vcf"]]
            if v_real != v_model:
                drift.append("VCF records")
            pn, pseq = vlib.parse_fasta_text(open(out + "_pseudo_genomes.fas").read())
            if pseq != ["".join(chr(x) for x in s_) for s_ in beh["pseudo"]]:
                drift.append("pseudo-genomes")
            return drift
        finally:
            sub.close()

    with concurrent.futures.ThreadPoolExecutor(max_workers=12) as ex:
        res = list(ex.map(one, list(enumerate(behs))))
    run.replayed += len(behs)
    ndrift = 0
    for beh, v in zip(behs, res):
        if isinstance(v, dict):
            run.fail({"kind": "replay", "behaviour": beh, "verdict": v}, "ska lo -r on a TLC scenario (k=%d): %s" % (beh["k"], v["decl"]))
            continue
        if v:
            ndrift += 1
            if ndrift <= 3:
                vlib.log("MODEL DRIFT (MC_LoRef): %s differ from the model on samples %s ref %s" %
                         (", ".join(v), [bytes(x).decode() for x in beh["samples"]], bytes(beh["ref"]).decode()))
        elif beh["placed"]:
            run.nontriv(["loref", beh["samples"], beh["ref"]])
    run.drift += ndrift
    run.extra["MC_LoRef_scenarios_replayed"] = len(behs)
    run.extra["MC_LoRef_scenarios_with_model_drift"] = ndrift
    run.extra["loref_scenarios_placed"] = sum(1 for b_ in behs if b_["placed"])


def finish(run, events, tag, tier):
    ok, bad, states = vlib.validate_trace("Trace_Lo", events, tag, shards=12 if tier == "quick" else 16, timeout=3000)
    run.states += states
    run.transitions += len(events)
    run.events += ok
    run.traces_validated += ok
    run.extra["scenarios_with_strict_precondition"] = sum(1 for e in events if e.get("ctx", {}).get("pre_strict"))
    run.extra["indels_planted"] = vlib.LAST_EXTRA.get("planted", 0)
    run.extra["indels_reported"] = vlib.LAST_EXTRA.get("reported", 0)
    run.extra["tandem_indels_planted"] = vlib.LAST_EXTRA.get("plantedT", 0)
    run.extra["tandem_indels_reported"] = vlib.LAST_EXTRA.get("reportedT", 0)
    for e in events:
        if e["ev"] in ("lo.snps", "lo.indels") and e.get("panic") == "":
            c = e["ctx"]
            s = {"ev": e["ev"], "k": c["k"], "threads": c.get("threads"), "pre_strict": c["pre_strict"]}
            if e["ev"] == "lo.snps":
                s.update({"sites": c["sites"], "alleles": ["".join(map(chr, x)) for x in c["alleles"]], "refmode": c["refmode"],
                          "snps": ["".join(map(chr, x)) for x in e["seqs"]]})
            else:
                s.update({"planted": [{"len": p["len"], "kind": p["kind"], "long": p["long"]} for p in c["planted"]],
                          "records": [{"ref": "".join(map(chr, r["ref"])), "alt": "".join(map(chr, r["alt"])), "gts": r["gts"]} for r in e["records"]]})
            run.sample(s, limit=3)
            break
    for i in bad:
        e = events[i]
        c = e.get("ctx", {})
        case = {"kind": "trace", "event": e, "pre_literal": bool(c.get("pre_literal", True)), "pre_strict": bool(c.get("pre_strict", True)), "ev": e["ev"]}
        run.fail(case, "%s rejected: k=%s threads=%s pre_strict=%s panic=%s" % (e["ev"], c.get("k"), c.get("threads"), c.get("pre_strict"), e.get("panic", "")[-120:]))


def replay(run, path):
    return globals()["run"](run, "quick", int(os.environ.get("VERIF_SEED", "20260926")))
