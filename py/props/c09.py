""".skf persistence is lossless and independent of the integer width chosen (C09)."""
import random, json, os
import vlib, gen, skacli, tablechecks as tc
from props.c06 import validate, rerun_episode

FILTERS = tc.FILTERS


def fits64_samples(rng, k, ns):
    """k >= 35 inputs whose every split k-mer starts with enough A's to fit in 64 bits
    (single strand): a run of A's followed by a tail shorter than the k-mer's low 32 bases."""
    out = []
    for _ in range(ns):
        tail = gen.rand_seq(rng, rng.randint(8, 31))
        out.append(["A" * rng.randint(k, k + 12) + tail])
    return out


def episode(run, sb, rng, k, rc, samples, names, tag):
    sb.reset()
    e = sb.build("x", samples, names, k, rc, threads=rng.choice([1, 2]))
    if not e.get("ok"):
        return
    n = len(names)
    run.evaluations += 1
    sb.load_event("x")
    sb.nk_event("x")
    sb.align("x", n, rng.choice([[0, 1000], [500, 1000], [1000, 1000]]), rng.choice(FILTERS), False, rng.random() < 0.3, False)
    # merge with itself-derived file in both orders
    sb.build("y", samples[:1], ["other_" + names[0]], k, rc)
    sb.merge(["x", "y"], "xy")
    sb.merge(["y", "x"], "yx")
    sb.load_event("xy")
    # three files, both ways round: the k-mers of y are in x as well but not in z (present - absent - present across the inputs)
    sb.build("z", [[gen.rand_seq(rng, 2 * k + 5)]], ["third_" + names[0]], k, rc)
    sb.merge(["y", "z", "x"], "yzx")
    sb.merge(["x", "z", "y"], "xzy")
    sb.nk_event("yzx")
    w = tc.weed_set(rng, samples, k)
    if any(tc._has_window(r, k) for r in w):
        sb.weed("x", w, rng.random() < 0.3, [0, 1000], "no-filter", False, False, False, out="wd")
        sb.load_event("wd")
    # each of the two boolean weed flags alone (they sit next to each other in the width-dispatched call)
    sb.weed("x", None, False, [0, 1000], "no-filter", False, True, False, out="wmask")
    sb.weed("x", None, False, [0, 1000], "no-const", False, False, True, out="wnogap")
    if n >= 2:
        t = e["table"]
        if all(c in (65, 67, 71, 84, 45) for r in t["rows"] for c in r[1]):
            sb.distance("x", n, [0, 1000], False, 1)
        sb.delete("x", [names[0]], out="del")
        sb.load_event("del")
    # everything filtered away: an empty table must still round-trip with its width
    sb.weed("y", None, False, [0, 1000], "no-const", False, False, False, out="empty")
    sb.load_event("empty")
    sb.nk_event("empty")
    # an empty file still carries its samples: merging with it, in either order, keeps them
    sb.merge(["empty", "x"], "ex")
    sb.merge(["x", "empty"], "xe")
    sb.nk_event("ex")
    run.nontriv([tag, k, rc, samples])


def run(run, tier, seed):
    run.rule = ("design: MC_SkfFile - save / crash / flip / dispatch state machine for k in {31,33,35,63} x fits-in-64-bits: "
                "the width a file is read with equals the width written (pinned loader = named deviation, refuted); its "
                "dispatch cases are replayed on really saved files through MergeSkaArray::<u64|u128>::load. traces: for "
                "every one of the 30 k: build, then both loaders, nk, align, merge in both orders, weed, distance, delete, "
                "and an empty-after-filter file, each compared by TLC with the operation on the in-memory table; special "
                "inputs: k>=35 single-strand files whose k-mers all fit in 64 bits, k=33, tables of several thousand k-mers "
                "(multi-frame); `ska lo` on planted-SNP genome sets at k in {31,33,35..63} (Trace_Lo). non-trivial = k>31, multi-frame or empty; distinct by (k, kind, samples)")
    run.assumptions = ["`ska nk` is the observation of file content; the library loaders are called on the same file"]
    d = vlib.design_check("MC_SkfFile", "MC_SkfFile", "c09-skf", workers=4, timeout=600, want_replay=True)
    run.add_design(d)
    rng = random.Random(seed + 9)
    sb = skacli.Sandbox("c09")
    try:
        # B: dispatch cases on real files
        for beh in d["replay"]:
            k, fits = beh["k"], beh["fits64"]
            if k >= 35 and fits:
                samples, rc = fits64_samples(rng, k, 2), False
            else:
                samples, rc = [["G" + gen.rand_seq(rng, 2 * k + 10)] for _ in range(2)], True
            sb.reset()
            e = sb.build("d", samples, ["a", "b"], k, rc)
            if not e.get("ok"):
                raise vlib.ToolError("could not build dispatch fixture")
            v = vlib.skav("replay", [{"kind": "dispatch", "path": sb.path("d"), "accept64": beh["accept64"], "accept128": beh["accept128"]}])[0]
            run.replayed += 1
            if not v.get("ok"):
                run.fail({"kind": "replay", "behaviour": beh, "verdict": v, "samples": samples, "rc": rc},
                         "k=%d fits64=%s: loaders accept %s, model says %s" % (k, fits, v.get("actual"), v.get("expected")))
        # C: all k
        ks = list(gen.ALLK)
        reps = 1 if tier == "quick" else 4
        for rep in range(reps):
            for k in ks:
                rc = rng.random() < 0.6
                ns = rng.randint(1, 4)
                samples = gen.related_samples(rng, k, ns, length=rng.randint(2 * k + 5, 3 * k + 20))
                # a repeat with another middle base in the first sample: an ambiguity code in the table
                s0 = samples[0][0]
                if len(s0) >= k and "N" not in s0.upper()[:k]:
                    h = (k - 1) // 2
                    samples[0].append(s0[:h] + rng.choice([c for c in "ACGT" if c != s0[h].upper()]) + s0[h + 1:k])
                episode(run, sb, rng, k, rc, samples, ["p%d_%d_%d" % (rep, k, i) for i in range(ns)], "plain")
                if k >= 33:
                    episode(run, sb, rng, k, False, fits64_samples(rng, k, 2), ["f%d_%d_%d" % (rep, k, i) for i in range(2)], "fits64")
        # thousands of k-mers (several compression frames)
        for k in ([21, 41] if tier == "quick" else [15, 21, 31, 33, 41, 63]):
            big = [[gen.rand_seq(rng, 4000 if tier == "quick" else 9000)] for _ in range(2)]
            big[1] = [big[0][0][:2000] + gen.rand_seq(rng, 1500)]
            sb.reset()
            e = sb.build("big", big, ["b0", "b1"], k, True)
            if e.get("ok"):
                sb.load_event("big")
                sb.nk_event("big")
                run.evaluations += 1
                run.nontriv(["big", k, len(e["table"]["rows"])])
        events = sb.events
    finally:
        sb.close()
    validate(run, events, "c09", tier)
    # `ska lo` is a subcommand too: on 128-bit files (k = 33: every split k-mer still fits in 64 bits; k >= 35: it does not)
    # it must find the planted isolated SNPs exactly as on 64-bit files (the C17 relation, Trace_Lo)
    import lodrv
    from props import c17
    lo_events = lodrv.snp_events(run, tier, seed + 909, "c09lo", ks=[31, 33, 35, 37, 41, 47, 55, 63], n=8 if tier == "quick" else 60)
    c17.finish(run, lo_events, "c09lo", tier)


def replay(run, path):
    case = json.load(open(path))["case"]
    if case.get("kind") == "replay":
        sb = skacli.Sandbox("c09r")
        try:
            beh = case["behaviour"]
            sb.reset()
            sb.build("d", case["samples"], ["a", "b"], beh["k"], case["rc"])
            v = vlib.skav("replay", [{"kind": "dispatch", "path": sb.path("d"), "accept64": beh["accept64"], "accept128": beh["accept128"]}])[0]
            run.evaluations += 1
            if not v.get("ok"):
                run.fail(case, "loader acceptance still differs")
        finally:
            sb.close()
    elif str(case.get("ev", "")).startswith("lo."):
        # the `ska lo` stratum is re-derived from the seed (scenario generation and driving are deterministic)
        import lodrv
        from props import c17
        seed = int(os.environ.get("VERIF_SEED", "20260926"))
        c17.finish(run, lodrv.snp_events(run, "quick", seed + 909, "c09lor", ks=[31, 33, 35, 37, 41, 47, 55, 63], n=8), "c09lor", "quick")
    else:
        rerun_episode(run, case, "c09r")
