"""C04 - mapped alignment equals the union of matched k-mer windows on the reference."""
import random, json
import vlib, mapdrv


def design_and_replay(run, tier):
    for mod, cfgq, cfgt in (("MC_AlnWriter", "MC_AlnWriter_quick", "MC_AlnWriter_thorough"),
                            ("MC_RefIndex", "MC_RefIndex_quick", "MC_RefIndex_thorough"),
                            ("MC_MapCompose", "MC_MapCompose_quick", "MC_MapCompose")):
        d = vlib.design_check(mod, cfgq if tier == "quick" else cfgt, "c04-" + mod, workers=8, timeout=3000, want_replay=True)
        run.add_design(d)
        verdicts = vlib.skav_parallel("replay", d["replay"], jobs=12)
        run.replayed += len(verdicts)
        ndrift = 0
        for beh, v in zip(d["replay"], verdicts):
            if not v.get("ok"):
                run.fail({"kind": "replay", "behaviour": beh, "verdict": v},
                         "%s behaviour diverges in the real code: %s" % (beh["kind"], v.get("why")))
            else:
                ndrift += 1 if v.get("drift") else 0
                if beh["kind"] == "aln" and 0 < len(beh["writes"]):
                    run.nontriv(["aln", beh["contigs"], beh["writes"], beh["mask_ambig"], beh["repeats"]])
                elif beh["kind"] == "refidx" and beh["repeats"]:
                    run.nontriv(["refidx", beh["contigs"], beh["rc"]])
                elif beh["kind"] == "map1" and (beh["ambig_mask"] or beh["repeat_mask"] or 45 in beh["aln"]):
                    run.nontriv(["map1", beh["contigs"], beh["table"]["rows"], beh["ambig_mask"], beh["repeat_mask"], beh["rc"]])
        run.drift += ndrift
        run.sample({"replayed_behaviour": d["replay"][len(d["replay"]) // 2]}, limit=2)


def run(run, tier, seed):
    run.rule = ("design: MC_MapCompose - every two-contig reference over {A,C} (second contig possibly empty or shorter than k) x the "
                "reference itself or with one substitution (G or the code R) / one deleted base as the sample x strand mode x mask flags: the "
                "composition index order + strand correction + incremental writer + repeat loop + finalise = declarative MappedAln; every "
                "scenario replayed through RefSka::new + map + write_aln (the printed row must be that alignment); MC_AlnWriter - for every contig shape of the set (1-3 contigs, lengths 0..9 incl. contigs without "
                "k-mers) every ordered subset of mapped centres is written through the code-shaped writer and must equal the "
                "union-of-windows definition (+-ambig mask, +-repeat mask); MC_RefIndex - the repeat-coordinate loop = the "
                "declarative coordinate set for every 3-contig reference of its universe (middle contig shorter than k); all "
                "behaviours replayed into the real AlnWriter / RefSka::new. traces: generated references (1-4 contigs, short "
                "and empty contigs, N runs, direct/inverted repeats, lower case) and derived samples (SNPs, indels, gaps, "
                "rearranged / reverse-complemented contigs, ambiguity), all 30 k, both strand modes, all mask flags, CLI "
                "(.skf input) and library; TLC recomputes MappedAln. non-trivial = mapped and unmapped positions both present "
                "or a mask flag set; distinct by (reference, table, flags)")
    run.assumptions = ["the sample table given to MappedAln is the one `ska nk` reports for the mapped .skf (building is C01's subject)",
                       "FASTA/VCF text parsing in the driver"]
    design_and_replay(run, tier)
    events = mapdrv.run_cases(run, tier, seed + 4, "c04")
    for e in events:
        e.pop("vcf", None)          # C05's subject
    finish(run, events, "c04", tier)


def finish(run, events, tag, tier):
    ok, bad, states = vlib.validate_trace("Trace_Map", events, tag, shards=8 if tier == "quick" else 16, timeout=3000)
    run.states += states
    run.transitions += len(events)
    run.events += ok
    run.traces_validated += ok
    run.drift += vlib.LAST_DRIFT
    if vlib.LAST_DRIFT:
        vlib.log("MODEL DRIFT (RefMap.tla): %d references whose index entries / repeat-mask coordinates differ from the model's" % vlib.LAST_DRIFT)
    for e in events:
        if e["ev"] == "map" and e.get("panic") == "" and "aln" in e:
            run.sample({"ev": "map", "via": e["via"], "k": e["ctx"]["table"]["k"], "ambig_mask": e["ctx"]["ambig_mask"],
                        "repeat_mask": e["ctx"]["repeat_mask"], "contigs": [bytes(c).decode() for c in e["ctx"]["contigs"]],
                        "aln": ["".join(map(chr, s)) for s in e["aln"]["seqs"]]}, limit=3)
            break
    for i in bad:
        e = events[i]
        c = e["ctx"]
        run.fail({"kind": "trace", "event": e},
                 "%s event (%s) rejected: k=%s flags=%s/%s contigs=%s" % (e["ev"], e.get("via", "lib"), c.get("k", (c.get("table") or {}).get("k")),
                                                                          c.get("ambig_mask"), c.get("repeat_mask"), [len(x) for x in c["contigs"]]))


def replay(run, path):
    case = json.load(open(path))["case"]
    if case.get("kind") == "replay":
        v = vlib.skav("replay", [case["behaviour"]])[0]
        run.evaluations += 1
        if not v.get("ok"):
            run.fail(case, "replayed behaviour still diverges: %s" % v.get("why"))
        return
    e = case["event"]
    events = redo(e)
    run.evaluations += 1
    ok, bad, states = vlib.validate_trace("Trace_Map", events, "c04-replay", shards=1)
    for i in bad:
        run.fail({"kind": "trace", "event": events[i]}, "event still rejected on re-execution")


def redo(e, keep_vcf=False):
    import os, skacli
    c = e["ctx"]
    if e["ev"] == "aln":
        return vlib.skav("exec", [{"op": "aln", "k": c["k"], "contigs": c["contigs"], "repeats": c["repeats"],
                                   "mask_ambig": c["mask_ambig"], "writes": c["writes"], "ctx": c}])
    sb = skacli.Sandbox("mapr")
    try:
        contigs = [bytes(x).decode() for x in c["contigs"]]
        ref = os.path.join(sb.dir, "ref.fa")
        vlib.write_fasta(ref, contigs, names=c.get("cnames") or ["c%d" % i for i in range(len(contigs))])
        if e["ev"] == "ref":
            return vlib.skav("exec", [{"op": "ref", "w": e.get("w", 128), "k": c["k"], "file": ref, "rc": c["rc"], "ambig_mask": False,
                                       "repeat_mask": c["repeat_mask"], "ctx": c}])
        t = c["table"]
        evs = vlib.skav("exec", [{"op": "map", "w": 64 if t["k"] <= 31 else 128, "table": t, "file": ref, "ambig_mask": c["ambig_mask"],
                                  "repeat_mask": c["repeat_mask"], "threads": 1, "ctx": c}])
        for ev in evs:
            if ev.get("panic", "") == "":
                ev["vcf"] = mapdrv.parse_vcf(ev["vcf"])
                if not keep_vcf:
                    ev.pop("vcf")
        return evs
    finally:
        sb.close()
