"""C02 - build is invariant to strand, record order, letter case, wrapping and gzip."""
import os, random, json, shutil
import vlib, gen
from vlib import b, revcomp


def toggle(ch):
    return ch.lower() if ch.isupper() else ch.upper()


def transforms(rng, recs, rc):
    """Yield (kind, arg, extra, new_recs, file_options)."""
    n = len(recs)
    out = []
    if rc:
        mask = [rng.random() < 0.5 for _ in range(n)]
        if not any(mask):
            mask[rng.randrange(n)] = True
        out.append(("revcomp", mask, {}, [revcomp(r) if m else r for r, m in zip(recs, mask)], {}))
    perm = list(range(n))
    rng.shuffle(perm)
    if n > 1 and perm == list(range(n)):
        perm = perm[1:] + perm[:1]
    out.append(("permute", [p + 1 for p in perm], {}, [recs[p] for p in perm], {}))
    cmask = [[rng.random() < 0.5 for _ in r] for r in recs]
    out.append(("case", cmask, {}, ["".join(toggle(c) if m else c for c, m in zip(r, mk)) for r, mk in zip(recs, cmask)], {}))
    w = rng.choice([1, 7, 60, 80])
    lines = [[b(r[j:j + w]) for j in range(0, max(len(r), 1), w)] for r in recs]
    out.append(("wrap", w, {"lines": lines}, list(recs), {"wrap": w}))
    out.append(("gzip", 0, {}, list(recs), {"gz": rng.choice([True, "multi"])}))
    return out


def run(run, tier, seed):
    run.rule = ("design: MC_Xform applies every reverse-complement subset / swap / case mask to every record set of its "
                "bounded universe (k=5) and checks the declarative dictionary is unchanged, and that permuting samples "
                "permutes table columns. traces: C01-style record sets for all 30 k; each transformation kind applied with "
                "random arguments; transformed file built by SkaDict (both widths) and by `ska build`+`ska nk`; TLC first "
                "checks the new input IS the stated transformation of the original, then that the recorded dictionary "
                "equals the dictionary of the ORIGINAL input. non-trivial = transformation changes the file bytes and the "
                "input has a window; distinct by (input, kind, argument)")
    run.assumptions = ["needletail/flate2 parse wrapped and gzip-compressed files written by the driver as intended"]
    cfg = "MC_Xform_quick" if tier == "quick" else "MC_Xform_thorough"
    run.add_design(vlib.design_check("MC_Xform", cfg, "c02-xform", workers=8, timeout=1800))
    rng = random.Random(seed + 2)
    ncase = 40 if tier == "quick" else 600
    tmp = vlib.shm_dir("c02")
    ops, cli_jobs, events = [], [], []
    try:
        for ci in range(ncase):
            k = gen.ALLK[ci % 30]
            rc = (ci % 5 != 0)
            recs = gen.record_set(rng, k, small=(ci % 3 != 0))
            haswin = any(sum(1 for c in r if c in "ACGTacgt") >= k for r in recs)
            for ti, (kind, arg, extra, new, fopt) in enumerate(transforms(rng, recs, rc)):
                fa = os.path.join(tmp, "c%d_%d.fa%s" % (ci, ti, ".gz" if fopt.get("gz") else ""))
                vlib.write_fasta(fa, new, wrap=fopt.get("wrap"), gz=fopt.get("gz", False))
                ctx = {"base": [b(r) for r in recs], "recs": [b(r) for r in new], "k": k, "rc": rc, "kind": kind, "arg": arg}
                ctx.update(extra)
                w = 64 if (k <= 31 and (ci + ti) % 2 == 0) else 128
                ops.append({"op": "dict", "w": w, "id": ci, "files": [fa], "ctx": ctx})
                if (ci + ti) % 3 == 0:
                    cli_jobs.append((ci, ti, fa, ctx))
                if haswin and new != recs or fopt:
                    if haswin:
                        run.nontriv([recs, k, rc, kind, arg])
                run.evaluations += 1
        events = vlib.skav_parallel("exec", ops, jobs=8)
        for e in events:
            e["ev"] = "xform"
        # the same through the CLI for a third of the cases
        for (ci, ti, fa, ctx) in cli_jobs:
            out = os.path.join(tmp, "o%d_%d" % (ci, ti))
            fl = os.path.join(tmp, "l%d_%d.txt" % (ci, ti))
            open(fl, "w").write("x\t%s\n" % fa)
            args = ["build", "-o", out, "-k", str(ctx["k"]), "-f", fl] + ([] if ctx["rc"] else ["--single-strand"])
            rcode, so, se = vlib.ska_cli(args)
            if rcode != 0:
                events.append({"ev": "xform", "via": "cli", "ctx": ctx, "panic": se.decode(errors="replace")[-200:] or "exit"})
                continue
            rcode, so, se = vlib.ska_cli(["nk", "--full-info", out + ".skf"])
            t = vlib.parse_nk(so.decode())
            events.append({"ev": "xform", "via": "cli", "ctx": ctx, "panic": "" if rcode == 0 else "nk failed",
                           "dict": [[r[0], r[1][0]] for r in t["rows"]]})
        # sample permutation: permuting input samples permutes the columns
        nperm = 10 if tier == "quick" else 120
        for pi in range(nperm):
            k = gen.ALLK[(pi * 7) % 30]
            rc = pi % 4 != 0
            wide = pi in (3, 7) or (tier != "quick" and pi % 10 == 3)
            if wide:
                # enough samples for the recursive parallel build to split three and four levels deep
                ns = rng.choice([70, 72, 81, 96, 150])
                core = gen.rand_seq(rng, k + 2)
                samples = [[core + gen.rand_seq(rng, k + 1)] for _ in range(ns)]
            else:
                ns = rng.randint(2, 5)
                samples = gen.related_samples(rng, k, ns)
            names = ["s%d" % i for i in range(ns)]
            perm = list(range(ns))
            rng.shuffle(perm)
            fl = os.path.join(tmp, "p%d.txt" % pi)
            with open(fl, "w") as f:
                for j in perm:
                    fa = os.path.join(tmp, "p%d_%d.fa" % (pi, j))
                    vlib.write_fasta(fa, samples[j])
                    f.write("%s\t%s\n" % (names[j], fa))
            out = os.path.join(tmp, "po%d" % pi)
            threads = rng.choice([8, 16]) if wide else rng.choice([1, 2, 4])
            rcode, so, se = vlib.ska_cli(["build", "-o", out, "-k", str(k), "-f", fl, "--threads", str(threads)]
                                         + ([] if rc else ["--single-strand"]))
            ctx = {"orig": [[b(r) for r in s] for s in samples], "orignames": names, "perm": [p + 1 for p in perm],
                   "samples": [[b(r) for r in samples[j]] for j in perm], "names": [names[j] for j in perm], "k": k, "rc": rc}
            if rcode != 0:
                events.append({"ev": "nk", "ctx": ctx, "panic": se.decode(errors="replace")[-200:] or "exit"})
                continue
            rcode, so, se = vlib.ska_cli(["nk", "--full-info", out + ".skf"])
            events.append({"ev": "nk", "ctx": ctx, "panic": "" if rcode == 0 else "nk failed", "table": vlib.parse_nk(so.decode())})
            run.evaluations += 1
            run.nontriv(["perm", samples, perm, k, rc])
    finally:
        shutil.rmtree(tmp, ignore_errors=True)
    ok, bad, states = vlib.validate_trace("Trace_Kmer", events, "c02", shards=8 if tier == "quick" else 16, timeout=2400)
    run.states += states
    run.transitions += len(events)
    run.traces_validated += ok
    run.events += ok
    ex = dict(events[0]); ex["dict"] = ex.get("dict", [])[:3]
    run.sample(ex)
    for i in bad:
        e = events[i]
        run.fail({"kind": "trace", "event": e},
                 "%s event rejected: kind=%s k=%s rc=%s" % (e["ev"], e["ctx"].get("kind", "sample-permutation"), e["ctx"]["k"], e["ctx"]["rc"]))


def replay(run, path):
    case = json.load(open(path))["case"]
    e = case["event"]
    c = e["ctx"]
    tmp = vlib.shm_dir("c02r")
    try:
        if e["ev"] == "xform":
            recs = [bytes(r).decode() for r in c["recs"]]
            fa = os.path.join(tmp, "x.fa" + (".gz" if c["kind"] == "gzip" else ""))
            vlib.write_fasta(fa, recs, wrap=c["arg"] if c["kind"] == "wrap" else None, gz=c["kind"] == "gzip")
            evs = vlib.skav("exec", [{"op": "dict", "w": e.get("w", 128), "files": [fa], "ctx": c}])
            for x in evs:
                x["ev"] = "xform"
        else:
            evs = [e]
        ok, bad, states = vlib.validate_trace("Trace_Kmer", evs, "c02-replay", shards=1)
        run.evaluations += 1
        for i in bad:
            run.fail({"kind": "trace", "event": evs[i]}, "event still rejected")
    finally:
        shutil.rmtree(tmp, ignore_errors=True)
