"""C13 - weeding removes exactly the k-mers of the weed sequences and nothing else."""
import random, json
import vlib, skacli, tablechecks as tc
from props.c06 import rerun_episode


def run(run, tier, seed):
    run.rule = ("design: MC_Ska with invariant WeedPartition (weed / reverse weed partition every reachable file, weeding twice "
                "changes nothing, names unchanged); histories containing a weed are replayed through the CLI. traces: random "
                "files and weed sets cut from the samples (substrings, reverse-complemented, with N, unrelated, everything), "
                "all k, both strand modes, --min-freq 0, each weeded forward, reverse, twice and in place; TLC computes the "
                "weed k-mer set with the FILE's k and strand mode. precondition (evaluated by the driver): the weed file has "
                ">=1 valid window. non-trivial = every executed case; distinct by (samples, weed set, k, rc)")
    run.assumptions = ["sample names are passed through a file list (name<TAB>file)", "ska nk --full-info exposes the whole table"]
    tc.design_and_replay(run, tier, seed, lambda r: any(h["op"]["do"] == "weed" and h["op"]["weed"] for h in r["hist"]), "c13",
                         60 if tier == "quick" else 1200, focus="weed")
    rng = random.Random(seed + 7)
    sb = skacli.Sandbox("c13")
    try:
        tc.weed_episodes(run, sb, rng, tier)
        events = sb.events
    finally:
        sb.close()
    tc.validate(run, events, "c13", tier)


def replay(run, path):
    case = json.load(open(path))["case"]
    if case.get("kind") == "replay":
        import skahist
        v = skahist.replay_one((0, case["behaviour"]))
        run.evaluations += 1
        if not v.get("ok"):
            run.fail(case, "history still diverges: %s" % v.get("why"))
    else:
        rerun_episode(run, case, "c13r")
