"""C01 - build yields exactly the split k-mers of the input, IUPAC-merged per k-mer."""
import os, random, json
import vlib, gen
from vlib import b


def design_and_replay(run, tier):
    cfg = "MC_SplitKmer_quick" if tier == "quick" else "MC_SplitKmer_thorough"
    d = vlib.design_check("MC_SplitKmer", cfg, "c01-" + cfg, workers=8, timeout=1500, want_replay=True)
    run.add_design(d)
    verdicts = vlib.skav_parallel("replay", d["replay"], jobs=8)
    run.replayed += len(verdicts)
    for beh, v in zip(d["replay"], verdicts):
        if not v.get("ok"):
            run.fail({"kind": "replay", "behaviour": beh, "verdict": v},
                     "TLC behaviour diverges in the real SplitKmer: seq=%s k=%s rc=%s: %s" %
                     (bytes(beh["seq"]).decode(), beh["k"], beh["rc"], v.get("why")))
        elif len(beh["obs"]) > 0 and (78 in beh["seq"] or len(beh["seq"]) <= beh["k"] + 1):
            run.nontriv(["replay", beh["seq"], beh["rc"]])
    if d["replay"]:
        run.sample({"replayed_behaviour": d["replay"][len(d["replay"]) // 2]})


def nontrivial(recs, k):
    has_window = any(sum(1 for c in r if c in "ACGTacgt") >= k for r in recs)
    special = any(("N" in r or "n" in r or len(r) <= k + 1) for r in recs)
    return has_window and special


def make_cases(rng, tier):
    n = 45 if tier == "quick" else 900
    cases = []
    ks = list(gen.ALLK)
    for i in range(n):
        k = ks[i % len(ks)] if i < 2 * len(ks) else rng.choice(ks)
        small = (i % 3 != 0)
        recs = gen.record_set(rng, k, small=small)
        cases.append({"k": k, "rc": rng.random() < 0.6, "recs": recs})
    # the cases the property text calls out, for every k
    for k in ks:
        s = gen.rand_seq(rng, k)
        cases.append({"k": k, "rc": True, "recs": [s]})                      # length exactly k
        t = gen.rand_seq(rng, 2 * k + 3)
        t = t[:len(t) - k - 1] + "N" + t[len(t) - k:]                         # N k+1 before the end
        cases.append({"k": k, "rc": (k % 4 == 1), "recs": [t]})
    # every ORDER in which 2, 3 or 4 different middle bases of one split k-mer can be met (the union table is walked cell by
    # cell: existing code x new base), in one record per order; windows are separated by N so that nothing else is shared.
    # (60 orders; two thirds of them single-strand so that the stored base is the written one.)
    import itertools
    orders = [p_ for n_ in (2, 3, 4) for p_ in itertools.permutations("ACGT", n_)]
    rng.shuffle(orders)
    # ... and orders in which a base already met comes again after two or three different ones (the code must not change)
    for S in [c for n_ in (2, 3) for c in itertools.combinations("ACGT", n_)]:
        for rep in (S if len(S) == 3 else S[:1]):
            orders.append(tuple(rng.sample(S, len(S))) + (rep,))
    for oi, order in enumerate(orders):
        k = [5, 9, 31, 33][oi % 4]
        h = (k - 1) // 2
        up, lo = gen.rand_seq(rng, h), gen.rand_seq(rng, h)
        while up + lo == vlib.revcomp(up + lo):
            up = gen.rand_seq(rng, h)
        rec = "N".join(up + m + lo for m in order)
        cases.append({"k": k, "rc": oi % 3 == 0, "recs": [rec]})
    # the same for a split k-mer whose arms are their own reverse complement (with both strands every sighting adds the base
    # and its complement): every ordered pair of middle bases
    for oi, (m1, m2) in enumerate(itertools.permutations("ACGT", 2)):
        k = [5, 7, 31, 35][oi % 4]
        w = gen.selfrc_window(rng, k)
        h = (k - 1) // 2
        rec = w[:h] + m1 + w[h + 1:] + "N" + w[:h] + m2 + w[h + 1:]
        cases.append({"k": k, "rc": True, "recs": [rec]})
    return cases


def drive(run, cases, tag):
    tmp = vlib.shm_dir(tag)
    ops, events = [], []
    try:
        for ci, c in enumerate(cases):
            k, rc, recs = c["k"], c["rc"], c["recs"]
            widths = [64, 128] if k <= 31 else [128]
            brecs = [b(r) for r in recs]
            fa = os.path.join(tmp, "c%d.fa" % ci)
            vlib.write_fasta(fa, recs)
            for w in widths:
                for r in brecs[:2]:
                    ops.append({"op": "iter", "w": w, "id": ci,
                                "ctx": {"seq": r, "qual": [], "k": k, "rc": rc, "qf": "none", "minq": 0, "reads": False}})
                ops.append({"op": "dict", "w": w, "id": ci, "files": [fa], "ctx": {"recs": brecs, "k": k, "rc": rc}})
        events = vlib.skav_parallel("exec", ops, jobs=8)
        # CLI: ska build + ska nk --full-info (plain for even cases, .gz for odd)
        for ci, c in enumerate(cases):
            k, rc, recs = c["k"], c["rc"], c["recs"]
            gz = (ci % 2 == 1)
            fa = os.path.join(tmp, "s%d.fa%s" % (ci, ".gz" if gz else ""))
            vlib.write_fasta(fa, recs, gz=gz)
            out = os.path.join(tmp, "o%d" % ci)
            if len(recs) >= 2 and ci % 3 == 0:
                # one sample given as two FASTA files in the file list (an assembly kept as chromosome + plasmid files):
                # the sample's records are the records of both files
                cut = (len(recs) + 1) // 2
                fa2 = os.path.join(tmp, "s%d_b.fa%s" % (ci, ".gz" if gz else ""))
                vlib.write_fasta(fa, recs[:cut], gz=gz)
                vlib.write_fasta(fa2, recs[cut:], gz=gz)
                fl = os.path.join(tmp, "l%d.txt" % ci)
                open(fl, "w").write("s%d\t%s\t%s\n" % (ci, fa, fa2))
                args = ["build", "-o", out, "-k", str(k), "-f", fl] + ([] if rc else ["--single-strand"])
            elif gz:
                # .fa.gz is not an extension `ska build` strips for the sample name: name it through a file list
                fl = os.path.join(tmp, "l%d.txt" % ci)
                open(fl, "w").write("s%d\t%s\n" % (ci, fa))
                args = ["build", "-o", out, "-k", str(k), "-f", fl] + ([] if rc else ["--single-strand"])
            else:
                args = ["build", "-o", out, "-k", str(k), fa] + ([] if rc else ["--single-strand"])
            rcode, so, se = vlib.ska_cli(args)
            ctx = {"samples": [[b(r) for r in recs]], "names": ["s%d" % ci], "k": k, "rc": rc}
            has_window = any(_has_window(r, k) for r in recs)
            if rcode != 0:
                # the tool refuses inputs without any valid window; anything else is a failure
                events.append({"ev": "dict", "id": ci, "via": "cli", "ctx": {"recs": ctx["samples"][0], "k": k, "rc": rc},
                               "panic": se.decode(errors="replace")[-300:] or "exit %d" % rcode})
                continue
            rcode, so, se = vlib.ska_cli(["nk", "--full-info", out + ".skf"])
            if rcode != 0:
                events.append({"ev": "nk", "id": ci, "ctx": ctx, "panic": se.decode(errors="replace")[-300:] or "nk failed"})
                continue
            events.append({"ev": "nk", "id": ci, "ctx": ctx, "table": vlib.parse_nk(so.decode()), "panic": ""})
    finally:
        import shutil
        shutil.rmtree(tmp, ignore_errors=True)
    return events


def _has_window(r, k):
    run_ = 0
    for ch in r:
        run_ = run_ + 1 if ch in "ACGTacgt" else 0
        if run_ >= k:
            return True
    return False


def run(run, tier, seed):
    run.rule = ("design: every record over {A,C,G,T,N} up to the length bound, k=5, both strand modes, iterator run to "
                "exhaustion in TLC and each behaviour replayed into SplitKmer<u64|u128>; traces: generated record sets "
                "(lengths k-2..k+2, 2k, 3k+-1, 150..400; N/n at distances 0,1,k-1,k,k+1; planted repeats / self-RC arms; "
                "mixed case) for all 30 k through SplitKmer, SkaDict (both widths) and ska build+nk (plain/.gz; every third multi-record "
                "sample as two FASTA files of one file-list line). "
                "non-trivial = has a valid window AND (invalid byte or record length <= k+1); distinct by (k, rc, records)")
    run.assumptions = ["needletail parses the FASTA files the driver writes into the records the driver intended",
                       "TLC + CommunityModules Json reader", "the projection (packed integer -> base-4 digits) in skav"]
    design_and_replay(run, tier)
    import extras
    extras.sample_names(run, tier)          # Cli.tla: sample names from file names (drift only)
    extras.arg_validation(run, tier)        # Cli.tla: argument validation, refusals, sub-sampling (drift only)
    run.add_design(vlib.design_check("MC_SplitKmer", "MC_SplitKmer_live", "c01-live", workers=4, timeout=600))  # termination under fairness
    rng = random.Random(seed)
    cases = make_cases(rng, tier)
    events = drive(run, cases, "c01")
    run.evaluations += len(cases)
    for c in cases:
        if nontrivial(c["recs"], c["k"]):
            run.nontriv([c["k"], c["rc"], c["recs"]])
    ok, bad, states = vlib.validate_trace("Trace_Kmer", events, "c01", shards=8 if tier == "quick" else 16, timeout=1500)
    run.states += states
    run.transitions += len(events)
    run.events += ok
    run.traces_validated += ok
    run.sample({"trace_event": events[0]})
    for i in bad:
        e = events[i]
        run.fail({"kind": "trace", "event": e},
                 "event %s rejected by Trace_Kmer (k=%s rc=%s)" % (e.get("ev"), e["ctx"].get("k"), e["ctx"].get("rc")))


def replay(run, path):
    case = json.load(open(path))["case"]
    if case.get("kind") == "replay":
        v = vlib.skav("replay", [case["behaviour"]])[0]
        if not v.get("ok"):
            run.fail(case, "replayed behaviour still diverges: %s" % v.get("why"))
    else:
        # re-execute: rebuild the event from its inputs through the real code, then validate
        e = case["event"]
        events = redo_event(e)
        ok, bad, states = vlib.validate_trace("Trace_Kmer", events, "c01-replay", shards=1)
        for i in bad:
            run.fail({"kind": "trace", "event": events[i]}, "event still rejected")
    run.evaluations += 1


def redo_event(e):
    c = e["ctx"]
    if e["ev"] == "iter":
        return vlib.skav("exec", [{"op": "iter", "w": e.get("w", 64), "ctx": c}])
    recs = c.get("recs") or c["samples"][0]
    return drive(None, [{"k": c["k"], "rc": c["rc"], "recs": [bytes(r).decode() for r in recs]}], "c01r")
