"""C19 - a damaged .skf is rejected, never read as different data."""
import os, random, json, subprocess, shutil
import vlib, gen, skacli


def faults(path, mode, n=5000, seed=1, threads=12, last_cap=6000, decoy=""):
    p = subprocess.run([vlib.SKAV, "faults", path, mode, str(n), str(seed), str(threads), str(last_cap), decoy], stdout=subprocess.PIPE,
                       stderr=subprocess.PIPE, text=True, timeout=7000)
    if p.returncode != 0:
        raise vlib.ToolError("skav faults failed: " + p.stderr[-1000:])
    r = json.loads(p.stdout.splitlines()[-1])
    if "error" in r:
        raise vlib.ToolError("skav faults: " + r["error"])
    return r


def make_files(sb, rng, tier):
    files = {}
    small = [[gen.rand_seq(rng, 70)], [gen.rand_seq(rng, 60)]]
    small[1] = [small[0][0][:40] + gen.rand_seq(rng, 25)]
    for name, k in (("small64", 15), ("small128", 41)):
        s = small if k == 15 else [[gen.rand_seq(rng, 120)], [gen.rand_seq(rng, 90)]]
        sb.reset()
        e = sb.build(name, s, ["a", "b"], k, True)
        assert e.get("ok")
        files[name] = sb.path(name)
    big = [[gen.rand_seq(rng, 9000)], []]
    big[1] = [big[0][0][:5000] + gen.rand_seq(rng, 3000)]
    for name, k in (("big64", 15), ("big128", 41)):
        sb.reset()
        e = sb.build(name, big, ["a", "b"], k, True)
        assert e.get("ok")
        files[name] = sb.path(name)
    # a file of well over a dozen frames: several consecutive frames lie wholly inside one array of the serialised table
    many = [[gen.rand_seq(rng, 62000)], []]
    many[1] = [many[0][0][:30000] + gen.rand_seq(rng, 20000)]
    sb.reset()
    e = sb.build("many64", many, ["a", "b"], 21, True)
    assert e.get("ok")
    files["many64"] = sb.path("many64")
    # a file of some 170 k k-mers: every array of the serialised table (k-mers, bases, counts - one byte per count) is longer
    # than two compression frames, so whole frames lie inside each of them. Only headers, checksums, frame boundaries and a few
    # payload bits are damaged (every fault re-reads 1.7 MB).
    huge = [[gen.rand_seq(rng, 100000)], []]
    huge[1] = [huge[0][0][:30000] + gen.rand_seq(rng, 70000)]
    sb.reset()
    e = sb.build("huge64", huge, ["a", "b"], 21, True, threads=2)
    assert e.get("ok")
    files["huge64"] = sb.path("huge64")
    # multi-frame files whose LAST frame is short, so that it holds only the tail of the serialised table (the end
    # of the last field(s)): damage confined to it leaves every earlier field intact
    for name, k in (("tail64", 21), ("tail128", 35)):
        base = gen.rand_seq(rng, 16000)
        best = None
        for step in range(60):
            L = 9000 + 131 * step
            s = [[base[:L]], [base[:L // 2] + gen.rand_seq(random.Random(step), 40)]]
            sb.reset()
            e = sb.build(name, s, ["a", "b"], k, True)
            assert e.get("ok")
            fr = frame_lengths(open(sb.path(name), "rb").read())
            if len(fr) >= 2 and (best is None or fr[-1] < best[0]):
                best = (fr[-1], L, s)
            if len(fr) >= 2 and fr[-1] <= 1500:
                break
        sb.reset()
        e = sb.build(name, best[2], ["a", "b"], k, True)
        assert e.get("ok")
        files[name] = sb.path(name)
        vlib.log("%s: last frame holds %d uncompressed bytes" % (name, best[0]))
    return files


def frame_lengths(data):
    """uncompressed length of each data frame of a snappy frame-format file"""
    out, i = [], 0
    while i + 4 <= len(data):
        ty = data[i]
        ln = data[i + 1] | data[i + 2] << 8 | data[i + 3] << 16
        body = data[i + 4:i + 4 + ln]
        if ty == 0x00:                 # compressed: crc(4) + raw snappy, which starts with the varint uncompressed length
            v, sh, j = 0, 0, 4
            while True:
                v |= (body[j] & 0x7f) << sh
                sh += 7
                if body[j] < 0x80:
                    break
                j += 1
            out.append(v)
        elif ty == 0x01:
            out.append(ln - 4)
        i += 4 + ln
    return out


def rewrite(sb, path, cmd):
    """`ska weed` (filters only) / `ska delete` of sample b, written to a new file; the parsed result or None if refused"""
    out = os.path.join(sb.dir, "rewritten.skf")
    if os.path.exists(out):
        os.remove(out)
    if cmd == "weed":
        wf = os.path.join(sb.dir, "weedfile.fa")
        if not os.path.exists(wf):
            vlib.write_fasta(wf, ["ACGTTGCATGCATCGATCGATCGTACGTAGCTAGCTAGCTAGCATCGATCGACTGCATGCTAGCTAGCTAGCTAGCATGCATCGA"])
        rc, so, se = vlib.ska_cli(["weed", path, wf, "-o", out, "--min-freq", "0", "--filter", "no-filter"])
    elif cmd == "weed-noop":
        # nothing to weed, nothing to filter: still a read of the whole file and a write of what was read
        rc, so, se = vlib.ska_cli(["weed", path, "-o", out, "--min-freq", "0"])
    else:
        rc, so, se = vlib.ska_cli(["delete", "-s", path, "-o", out, "b"])
    if rc != 0 or not os.path.exists(out):
        return None
    return vlib.parse_nk(vlib.ska_cli(["nk", "--full-info", out])[1].decode())


def run(run, tier, seed):
    run.rule = ("design: MC_SkfFile - save in steps with a crash after any step, one bit flip in any unit of up to 3 frames x "
                "4 payload units, load: verdict is never 'different'. fault enumeration against the real loaders (u64 then "
                "u128, as every subcommand does) on really saved files: 64-bit (k=15) and 128-bit (k=41), single-frame and "
                "multi-frame; quick = EVERY proper prefix and EVERY single-bit flip of the two small files + all non-payload "
                "bytes and sampled payload flips/prefixes of the large ones; thorough = everything on all four. Outcome per "
                "fault: rejected / decodes to the original content / different. `ska nk`, `ska align`, `ska merge` are run on "
                "a sample of damaged copies. every fault is non-trivial; distinct by (file, kind, offset, bit)")
    run.assumptions = ["the snappy frame layout is parsed only to classify regions for reporting",
                       "'same' compares k, strand mode, sample names, k-mers and bases of the decoded table"]
    d = vlib.design_check("MC_SkfFile", "MC_SkfFile", "c19-skf", workers=4, timeout=600)
    run.add_design(d)
    rng = random.Random(seed + 19)
    sb = skacli.Sandbox("c19")
    events = []
    try:
        files = make_files(sb, rng, tier)
        results = {}
        for name, path in files.items():
            if name.startswith("small"):
                # (the damaged copies of the small files carry no extension and have a valid file with other content beside
                # them under the same name + ".skf", as `ska weed -o X` next to `ska build -o X` leaves them)
                r = faults(path, "list", decoy=files["big64" if name == "small64" else "big128"])
            elif name == "huge64":
                r = faults(path, "sample", n=300 if tier == "quick" else 3000, seed=seed, last_cap=0)
            elif tier == "quick" or name == "many64":
                # (the many-frame file is sampled in both tiers: every header / checksum bit of every frame, the last
                # frame, and sampled payload bits and prefixes)
                r = faults(path, "sample", n=(1500 if name == "many64" else 3000) if tier == "quick" else 60000, seed=seed,
                           last_cap=0 if (name == "many64" and tier == "quick") else 6000)
            else:
                r = faults(path, "all", threads=16)
            results[name] = r
            run.evaluations += r["faults"]
            vlib.log("faults %s: len=%d frames=%d faults=%d" % (name, r["file_len"], r["frames"], r["faults"]))
            for a in r["agg"]:
                a["file"] = name
                events.append(a)
                # distinct faults are distinct by construction in 'list'/'all' modes
            for f in r["listed"]:
                f["file"] = name
                if name.startswith("small") or f["outcome"] != "rejected":
                    events.append(f)
            run.nontriv_n += r["faults"]      # the fault list is de-duplicated by skav: distinct (kind, offset, bit)
        run.extra["faults_by_file"] = {n: {"file_len": r["file_len"], "frames": r["frames"], "faults": r["faults"],
                                           "accepted_same": sum(a["same"] for a in r["agg"])} for n, r in results.items()}
        run.exhaustive = (tier == "thorough")
        # distinct_nontrivial: every fault of the exhaustive files is distinct; count them
        # CLI on a sample of damaged copies
        ref_out = {}
        for name, path in files.items():
            rc0, so0, _ = vlib.ska_cli(["nk", "--full-info", path])
            rc1, so1, _ = vlib.ska_cli(["align", path, "--min-freq", "0", "--filter", "no-filter"])
            rc2, so2, _ = vlib.ska_cli(["distance", path, "--min-freq", "0"])
            ref_out[name] = (so0, sorted(so1.split(b"\n")), so2, rewrite(sb, path, "weed"), rewrite(sb, path, "delete"), rewrite(sb, path, "weed-noop"))
        data = {n: open(p, "rb").read() for n, p in files.items()}
        picks = []
        for name, r in results.items():
            same = [f for f in r["listed"] if f["outcome"] == "same"][:6]
            rej = [f for f in r["listed"] if f["outcome"] == "rejected"]
            rng.shuffle(rej)
            picks += [(name, f) for f in same + rej[:6]]
            L = len(data[name])
            picks += [(name, {"kind": "trunc", "off": o, "bit": 0}) for o in (0, 5, L // 2, L - 1)]
        if tier == "quick":
            picks = picks[:40]
        other = files["small64"]
        for name, f in picks:
            dpath = os.path.join(sb.dir, "damaged.skf")
            raw = bytearray(data[name])
            if f["kind"] == "trunc":
                raw = raw[:f["off"]]
            else:
                raw[f["off"]] ^= 1 << f["bit"]
            open(dpath, "wb").write(bytes(raw))
            for cmd in ("nk", "align", "merge", "merge2", "distance", "weed", "delete", "weed-noop"):
                if cmd == "nk":
                    rc, so, se = vlib.ska_cli(["nk", "--full-info", dpath])
                    same_out = so == ref_out[name][0]
                elif cmd == "align":
                    rc, so, se = vlib.ska_cli(["align", dpath, "--min-freq", "0", "--filter", "no-filter"])
                    same_out = sorted(so.split(b"\n")) == ref_out[name][1]
                elif cmd == "distance":
                    rc, so, se = vlib.ska_cli(["distance", dpath, "--min-freq", "0"])
                    same_out = so == ref_out[name][2]
                elif cmd in ("weed", "delete", "weed-noop"):
                    # the commands that rewrite a file: what they write from a damaged copy must be what they write
                    # from the original
                    got = rewrite(sb, dpath, cmd)
                    rc = 0 if got is not None else 1
                    same_out = got is not None and got == ref_out[name][{"weed": 3, "delete": 4, "weed-noop": 5}[cmd]]
                else:
                    mo = os.path.join(sb.dir, "mergeout")
                    if os.path.exists(mo + ".skf"):
                        os.remove(mo + ".skf")
                    # the damaged copy as first input, and as a later input (loaded on another code path)
                    order = [dpath, files[name]] if cmd == "merge" else [files[name], dpath]
                    rc, so, se = vlib.ska_cli(["merge"] + order + ["-o", mo])
                    # merging a (possibly benign) copy with the original: must fail or equal merge(original, original)
                    if rc == 0:
                        mo2 = os.path.join(sb.dir, "mergeref")
                        vlib.ska_cli(["merge", files[name], files[name], "-o", mo2])
                        # (row order of a merged file depends on per-process hash seeds: compare parsed tables)
                        a = vlib.parse_nk(vlib.ska_cli(["nk", "--full-info", mo + ".skf"])[1].decode())
                        b_ = vlib.parse_nk(vlib.ska_cli(["nk", "--full-info", mo2 + ".skf"])[1].decode())
                        same_out = a == b_
                    else:
                        same_out = False
                events.append({"ev": "fault.cli", "file": name, "cmd": cmd, "kind": f["kind"], "off": f["off"], "bit": f["bit"],
                               "rc": rc, "same_output": bool(same_out), "panic": ""})
                run.evaluations += 1
        # the interrupted in-place overwrite itself: `ska delete` / `ska weed` without -o, killed by the kernel when the
        # file being written reaches a size limit (RLIMIT_FSIZE); whatever the code leaves on disk (the cut-off file and
        # any side files it created) is then opened by the subcommands in that directory: rejected, or what they print
        # for the completely written file
        import resource
        for name in ("big64", "tail128"):
            for cmd in ("delete", "weed"):
                cdir = os.path.join(sb.dir, "crash_%s_%s" % (name, cmd))
                os.makedirs(cdir, exist_ok=True)
                done = os.path.join(cdir, "complete.skf")
                argv = (["delete", "-s", "F", "b"] if cmd == "delete" else
                        ["weed", "F", "--min-freq", "0", "--filter", "no-const"])
                shutil.copy(files[name], done)
                rcw, _, sew = vlib.ska_cli([a if a != "F" else done for a in argv])
                if rcw != 0:
                    raise vlib.ToolError("in-place %s failed on the intact file: %s" % (cmd, sew.decode(errors="replace")[-200:]))
                full = open(done, "rb").read()
                want_nk = vlib.ska_cli(["nk", "--full-info", done])[1]
                want_al = sorted(vlib.ska_cli(["align", done, "--min-freq", "0", "--filter", "no-filter"])[1].split(b"\n"))
                for limit in sorted({64, 4096, len(full) // 2, max(len(full) - 1, 1)}):
                    target = os.path.join(cdir, "t%d.skf" % limit)
                    shutil.copy(files[name], target)
                    p = subprocess.run([vlib.SKA] + [a if a != "F" else target for a in argv], stdout=subprocess.PIPE, stderr=subprocess.PIPE,
                                       preexec_fn=lambda: resource.setrlimit(resource.RLIMIT_FSIZE, (limit, limit)))
                    left = open(target, "rb").read() if os.path.exists(target) else b""
                    is_prefix = full.startswith(left) and len(left) < len(full)
                    for probe in ("nk", "align"):
                        if probe == "nk":
                            rc, so, se = vlib.ska_cli(["nk", "--full-info", target])
                            same_out = so == want_nk
                        else:
                            rc, so, se = vlib.ska_cli(["align", target, "--min-freq", "0", "--filter", "no-filter"])
                            same_out = sorted(so.split(b"\n")) == want_al
                        events.append({"ev": "fault.cli", "file": name, "cmd": "%s after interrupted in-place %s" % (probe, cmd),
                                       "kind": "crash", "off": len(left), "bit": 0, "rc": rc, "same_output": bool(same_out),
                                       "left_is_proper_prefix": is_prefix, "writer_rc": p.returncode, "panic": ""})
                        run.evaluations += 1
                    run.nontriv(["crash", name, cmd, limit])
                    for fn in os.listdir(cdir):
                        if fn.startswith("t%d." % limit):
                            os.remove(os.path.join(cdir, fn))
    finally:
        sb.close()
    ok, bad, states = vlib.validate_trace("Trace_Skf", events, "c19", shards=8, timeout=2400)
    run.states += states
    run.transitions += len(events)
    run.events += ok
    run.traces_validated += ok
    run.drift += vlib.LAST_DRIFT
    run.sample([e for e in events if e["ev"] == "fault.agg"][:3])
    run.sample([e for e in events if e["ev"] == "fault" and e["outcome"] == "same"][:2])
    for i in bad:
        e = events[i]
        run.fail({"kind": "fault", "event": e}, "damaged copy of %s accepted as different data / by a subcommand: %s" %
                 (e.get("file"), json.dumps({k: e[k] for k in e if k not in ("panic",)})[:300]))


def replay(run, path):
    # faults are regenerated from the seed; re-run the quick enumeration
    return globals()["run"](run, "quick", int(os.environ.get("VERIF_SEED", "20260926")))
