"""C03 - reference-free alignment recovers exactly the true SNP columns."""
import os, random, json, shutil, concurrent.futures
import vlib, gen, skacli, derive
from vlib import b
from props.c06 import validate


def align_scenario(sb, sc, names, via, threads=1):
    """Run the real tool on a scenario; returns a `snpalign` event."""
    samples = [[r["seq"] for r in recs] for recs in sc["samples"]]
    k = sc["k"]
    ctx = derive.ctx_of(sc, names)
    if via == "fastas" and k == 17:
        fas = []
        sb.nfile += 1
        for i, s in enumerate(samples):
            fa = os.path.join(sb.dir, "%s_%d.fa" % (names[i], sb.nfile))
            os.makedirs(os.path.dirname(fa), exist_ok=True)
            fa = os.path.join(sb.dir, "d%d" % sb.nfile, names[i] + ".fa")
            os.makedirs(os.path.dirname(fa), exist_ok=True)
            vlib.write_fasta(fa, s)
            fas.append(fa)
        rc, so, se = vlib.ska_cli(["align", "--min-freq", "1", "--threads", str(threads)] + fas)
        paths = {"paths": [list(f) for f in fas], "name_chars": [list(n) for n in names]}
    elif via == "merged":
        # the same samples built as two multi-sample blocks and joined by `ska merge` (rows of one block carry '-' for
        # the k-mers only the other block has)
        paths = {}
        h = max(1, len(samples) // 2)
        e1 = sb.build("b1", samples[:h], names[:h], k, True, threads=threads)
        e2 = sb.build("b2", samples[h:], names[h:], k, True, threads=threads)
        e = sb.merge(["b1", "b2"], "x") if (e1.get("ok") and e2.get("ok")) else {"ok": False}
    else:
        paths = {}
        e = sb.build("x", samples, names, k, True, threads=threads)
    if via != "fastas" or k != 17:
        if not e.get("ok"):
            return {"ev": "snpalign", "ep": sb.ep, "stateful": True, "ctx": ctx, "ok": False, "names": [], "seqs": [], "via": via}
        rc, so, se = vlib.ska_cli(["align", "--min-freq", "1", sb.path("x")])
    if rc != 0:
        return {"ev": "snpalign", "ep": sb.ep, "stateful": True, "ctx": ctx, "ok": False, "names": [], "seqs": [], "via": via,
                "err": se.decode(errors="replace")[-200:]}
    nm, seqs = vlib.parse_fasta_text(so.decode())
    if not seqs:
        seqs = ["" for _ in nm]
    ev = {"ev": "snpalign", "ep": sb.ep, "stateful": True, "ctx": ctx, "ok": True, "names": nm, "seqs": [b(s) for s in seqs], "via": via}
    ev.update(paths)
    return ev


def columns_ok(ev):
    """driver-side mirror of SnpColumnsOK (only used to classify literal-precondition cases)"""
    c = ev["ctx"]
    comp = {65: 84, 84: 65, 67: 71, 71: 67}
    canon = lambda col: min(tuple(col), tuple(comp.get(x, x) for x in col))
    seqs = ev["seqs"]
    n = len(seqs[0]) if seqs else 0
    got = sorted(canon([s[j] for s in seqs]) for j in range(n))
    want = sorted(canon(col) for col in c["alleles"] if len(set(col)) >= 2)
    return ev["ok"] and ev["names"] == c["names"] and got == want and all(len(s) == n for s in seqs)


def run(run, tier, seed):
    run.rule = ("design: MC_AlignSnp - two 16/17-base ancestors, every choice of 1-2 sites, alternative base, carrier set for 3 "
                "samples and contig orientation: whenever the preconditions hold (split k-mers unique per position AND strand "
                "over all derived samples; sites isolated) the declarative align of the declarative build is exactly one "
                "column per variable site up to column complement (TLC found that the strand must be part of the precondition); "
                "scenarios satisfying them are replayed through `ska build -k 5` + `ska align --min-freq 1`. traces: ancestors "
                "of 200-600 bases, 1-8 isolated sites, 2-10 samples, every k, contigs split / reverse-complemented, via .skf and "
                "(k=17) directly from FASTA; TLC re-derives the samples, evaluates the preconditions and compares columns. "
                "non-trivial = precondition holds, >=1 site, >=2 alleles; distinct by (ancestor, sites, alleles, k)")
    run.assumptions = ["the acceptance precondition is the strict one (evaluated on the derived samples, per position and strand); cases "
                       "where only the ancestor satisfies uniqueness are reported under known finding K03 when they fail"]
    d = vlib.design_check("MC_AlignSnp", "MC_AlignSnp", "c03-snp", workers=8, timeout=1800, want_replay=True)
    run.add_design(d)
    rng = random.Random(seed + 3)
    rep = d["replay"]
    if tier == "quick":
        rep = rng.sample(rep, min(len(rep), 150))
    sb = skacli.Sandbox("c03")
    events = []
    try:
        for bi, beh in enumerate(rep):
            sc = {"ancestor": bytes(beh["ancestor"]).decode(), "sites": beh["sites"], "k": beh["k"],
                  "alleles": [[chr(x) for x in col] for col in beh["alleles"]],
                  "samples": [[{"seq": bytes(r["seq"]).decode(), "off": r["off"], "rev": r["rev"]} for r in recs] for recs in beh["samples"]],
                  "pre_strict": True, "pre_literal": True}
            sb.reset()
            events.append(align_scenario(sb, sc, ["r%d_%d" % (bi, (7 * i + 3) % 11) for i in range(len(sc["samples"]))], "skf"))
            run.replayed += 1
        ncase = 40 if tier == "quick" else 600
        for ci in range(ncase):
            k = (gen.ALLK[ci % 30] if ci % 4 else 17) if ci >= 6 else [17, 21, 31, 15, 41, 9][ci]
            ns = rng.randint(2, 10) if ci >= 6 else [9, 10, 8, 2, 10, 9][ci]
            length = rng.randint(max(200, 4 * k), 600) if k > 7 else rng.randint(3 * k, 40 if k == 5 else 90)
            sc = derive.snp_scenario(rng, k, ns, length, rng.randint(1, 8 if k > 7 else 2))
            if ci < 6:                   # one private substitution per sample: all output rows differ
                length = max(length, ns * (k + 6) + 2 * k)
                sc = derive.snp_scenario(rng, k, ns, length, ns, private=True)
            for _ in range(20):          # the first cases (9/10 samples) are wanted under the strict precondition
                if ci >= 6 or (sc is not None and sc["pre_strict"]):
                    break
                sc = derive.snp_scenario(rng, k, ns, length, ns, private=True)
            if sc is None:
                continue
            sb.reset()
            via = "fastas" if (k == 17 and ci % 8 == 0) else "merged" if (ns >= 3 and ci % 4 == 1) else "skf"
            # sequence files given directly are named after the file stem; stems with dots, as assemblies often have
            nm_of = (lambda i: "iso%d.%d%s" % (ci, i, ".asm" if i % 2 else "")) if via == "fastas" else (lambda i: "a%d_%d" % (ci, (7 * i + 3) % 11))   # input order is not the alphabetical order of the names
            ev = align_scenario(sb, sc, [nm_of(i) for i in range(ns)], via,
                                threads=rng.choice([1, 2]))
            run.evaluations += 1
            if not sc["pre_strict"]:
                # literal precondition only: classify here, the trace spec skips it
                ev["literal_only"] = True
                if not columns_ok(ev):
                    run.fail({"kind": "literal", "pre_literal": True, "pre_strict": False, "event": ev},
                             "literal precondition holds, strict fails, and the columns differ (k=%d)" % k)
            else:
                run.nontriv([sc["ancestor"], sc["sites"], sc["alleles"], k])
            events.append(ev)
    finally:
        sb.close()
    run.extra["scenarios_with_strict_precondition"] = sum(1 for e in events if e["ctx"]["pre_strict"])
    run.extra["scenarios_literal_only_skipped"] = sum(1 for e in events if not e["ctx"]["pre_strict"])
    validate(run, events, "c03", tier)


def replay(run, path):
    case = json.load(open(path))["case"]
    e = case["event"]
    c = e["ctx"]
    sc = {"ancestor": bytes(c["ancestor"]).decode(), "sites": c["sites"], "k": c["k"],
          "alleles": [[chr(x) for x in col] for col in c["alleles"]],
          "samples": [[{"seq": bytes(r["seq"]).decode(), "off": r["off"], "rev": r["rev"]} for r in recs] for recs in c["samples"]],
          "pre_strict": c["pre_strict"], "pre_literal": c.get("pre_literal", True)}
    sb = skacli.Sandbox("c03r")
    try:
        sb.reset()
        ev = align_scenario(sb, sc, c["names"], e.get("via", "skf"))
    finally:
        sb.close()
    run.evaluations += 1
    ok, bad, states = vlib.validate_trace("Trace_Ska", [{"ev": "reset", "ep": 1, "stateful": True}, ev], "c03-replay", shards=1)
    for i in bad:
        run.fail({"kind": "trace", "event": ev}, "event still rejected on re-execution")
