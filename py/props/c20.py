"""C20 - cov tabulates exact k-mer multiplicities and labels the cutoff it defines."""
import os, random, json, math, shutil
import vlib, gen
from vlib import b, revcomp
from props.c12 import write_fastq


# ---- numeric oracle: the stated two-Poisson mixture (error ~ Pois(1), coverage ~ Pois(c)) ----------
def ln_pois(i, lam):
    return i * math.log(lam) - math.lgamma(i + 1.0) - lam


def log_ratio(w0, c, i):
    """ln(w0 Pois(i;1)) - ln((1-w0) Pois(i;c)): negative <=> the coverage component outweighs the error one"""
    return (math.log(w0) + ln_pois(i, 1.0)) - (math.log(1.0 - w0) + ln_pois(i, c))


def mix_ll(w0, c, counts):
    ll = 0.0
    for i, n in enumerate(counts, start=1):
        a = math.log(w0) + ln_pois(i, 1.0)
        bb = math.log(1.0 - w0) + ln_pois(i, c)
        m = max(a, bb)
        ll += n * (m + math.log(math.exp(a - m) + math.exp(bb - m)))
    return ll


def grad_fd(w0, c, counts):
    hw, hc = 1e-6 * min(w0, 1 - w0), 1e-6 * c
    gw = (mix_ll(w0 + hw, c, counts) - mix_ll(w0 - hw, c, counts)) / (2 * hw)
    gc = (mix_ll(w0, c + hc, counts) - mix_ll(w0, c - hc, counts)) / (2 * hc)
    return gw, gc


def grad_exact(w0, c, counts):
    """analytic gradient of the stated mixture with numerically stable responsibilities (for long histograms,
    where central differences lose too many digits)"""
    gw = gc = 0.0
    for i, n in enumerate(counts, start=1):
        x = log_ratio(w0, c, i)                    # ln(error part) - ln(coverage part)
        if x >= 0:
            t = math.exp(-x)
            ra, rb = 1.0 / (1.0 + t), t / (1.0 + t)
        else:
            t = math.exp(x)
            ra, rb = t / (1.0 + t), 1.0 / (1.0 + t)
        gw += n * (ra / w0 - rb / (1.0 - w0))
        gc += n * rb * (i / c - 1.0)
    return gw, gc


def close(a, b_, rel=1e-4):
    if a is None or b_ is None or a != a or b_ != b_:      # NaN (serialised as null) is never close
        return False
    return abs(a - b_) <= rel * max(1.0, abs(a), abs(b_))


def grad_events(rng, n):
    """hooked log_likelihood / grad_ll at random parameter points on random histograms"""
    ops, meta = [], []
    for gi in range(n):
        # every fourth histogram is long (a high-copy plasmid / very deep coverage: hundreds of rows)
        long_ = gi % 4 == 3
        m = rng.randint(150, 500) if long_ else rng.randint(3, 60)
        cpeak = rng.uniform(2, min(m, 120))
        counts = [max(0.0, round(1000 * math.exp(-0.5 * ((i - cpeak) / max(1.5, math.sqrt(cpeak))) ** 2) + 5000 * math.exp(-1.5 * i)
                                 + rng.randint(0, 30))) for i in range(1, m + 1)]
        w0 = rng.uniform(0.01, 0.99) if gi % 3 else rng.choice([1e-6, 1e-3, 0.5, 0.999, 1 - 1e-6])
        c = rng.uniform(1.0, 150.0 if long_ else 80.0)
        ops.append({"op": "cov", "what": "ll", "pars": [w0, c], "counts": counts})
        meta.append((w0, c, counts))
    evs = vlib.skav("exec", ops)
    out = []
    for ev, (w0, c, counts) in zip(evs, meta):
        if ev.get("panic"):
            out.append({"ev": "cov.grad", "panic": ev["panic"], "w0": w0, "c": c, "grad_ok": False, "ll_ok": False})
            continue
        gw, gc = grad_fd(w0, c, counts) if len(counts) <= 60 and 0.01 <= w0 <= 0.99 else grad_exact(w0, c, counts)
        out.append({"ev": "cov.grad", "panic": "", "w0": w0, "c": c, "ncounts": len(counts),
                    "ll_ok": close(ev["ll"], mix_ll(w0, c, counts), 1e-9),
                    "grad_ok": close(ev["grad"][0], gw) and close(ev["grad"][1], gc),
                    "grad": ["NaN" if x is None else x for x in ev["grad"]], "fd": [gw, gc]})
    return out


def simulate_reads(rng, glen, cov, err, k):
    g = gen.rand_seq(rng, glen)
    rlen = rng.randint(max(k + 5, 40), max(k + 20, 100))
    rlen = min(rlen, glen)
    nreads = max(2, int(cov * glen / rlen))
    reads = []
    for _ in range(nreads):
        a = rng.randint(0, glen - rlen)
        s = list(g[a:a + rlen])
        for i in range(rlen):
            x = rng.random()
            if x < err:
                s[i] = rng.choice("ACGT")
            elif x < err + 0.002:
                s[i] = "N"
        s = "".join(s)
        if rng.random() < 0.06 and rlen > k + 1:
            # an N with exactly k (or k+1) bases left behind it: the last window of the read still counts
            p = rlen - k - rng.choice([1, 1, 2])
            s = s[:p] + "N" + s[p + 1:]
        reads.append(revcomp(s) if rng.random() < 0.5 else s)
    return reads


def designed_reads(rng, k, hist):
    """Reads of length exactly k (one window each): hist[c] distinct k-mers are given c copies each, so the
    multiplicity histogram is exactly `hist` (k-mers are kept distinct on both strands)."""
    seen, reads = set(), []
    for c, n in sorted(hist.items()):
        made = 0
        while made < n:
            s = gen.rand_seq(rng, k)
            arms = s[:(k - 1) // 2] + s[(k - 1) // 2 + 1:]
            r = revcomp(s)
            rarms = r[:(k - 1) // 2] + r[(k - 1) // 2 + 1:]
            if arms in seen or rarms in seen or arms == rarms:
                continue
            seen.add(arms); seen.add(rarms)
            reads += [s if rng.random() < 0.5 else r for _ in range(c)]
            made += 1
    rng.shuffle(reads)
    return reads


def run(run, tier, seed):
    run.rule = ("design: MC_Cov - (a) every list of <=7 windows over 3 k-mers: run-length histogram = declarative multiplicity "
                "histogram, row c <-> multiplicity c, truncation (threshold scaled to 2); (b) every table length <=7 x every "
                "sign sequence: the cutoff loop (one TLC step per iteration) = smallest count with negative sign capped at the "
                "table length, labels. (b) replayed into the hooked find_cutoff at parameter points realising each monotone "
                "pattern. traces: simulated read pairs (a target of about 100 bases whose table is empty; coverage 10-30 quick / 10-80 thorough, error 0-3%, N, both "
                "orientations), several k, both strand modes through `ska cov` (stdout table, stderr cutoff) and the hooked "
                "fit; TLC recomputes the exact multiplicity histogram and checks indexing, truncation, cutoff and labels from "
                "the numeric oracle's sign observations; likelihood/gradient identity at random points. non-trivial = converged "
                "run with >=2 rows and 1 < cutoff < rows; distinct by (reads, k, rc)")
    run.assumptions = ["TLC has no reals: which side of zero the log ratio falls and the gradient identity are decided by an f64 oracle "
                       "in the driver from the stated mixture formula (independent of the code under test) and enter the specification "
                       "as boolean observations", "runs where the optimiser does not converge print no table and are counted as trivial"]
    d = vlib.design_check("MC_Cov", "MC_Cov", "c20-cov", workers=8, timeout=900, want_replay=True)
    run.add_design(d)
    events = []
    # B: cutoff behaviours into the real find_cutoff
    ops = []
    for beh in d["replay"]:
        j = beh["first_neg"]
        L = j - 0.5 - (math.e - 1.0)
        w0 = 1.0 / (1.0 + math.exp(-L))
        ops.append({"op": "cov", "what": "cutoff", "pars": [w0, math.e], "max": beh["max"]})
    for beh, op, ev in zip(d["replay"], ops, vlib.skav("exec", ops)):
        run.replayed += 1
        neg = [log_ratio(op["pars"][0], op["pars"][1], i) < 0 for i in range(1, 9)]
        if ev.get("panic") or ev.get("cutoff") != beh["cutoff"]:
            run.fail({"kind": "replay", "behaviour": beh, "pars": op["pars"], "actual": ev},
                     "find_cutoff(max=%d, first negative at %d) = %s, model says %d" % (beh["max"], beh["first_neg"], ev.get("cutoff"), beh["cutoff"]))
        events.append({"ev": "cov.cutoff", "panic": ev.get("panic", ""), "cutoff": ev.get("cutoff", -1), "max": beh["max"], "neg": neg,
                       "pars": op["pars"]})
        if 1 < beh["cutoff"] < beh["max"]:
            run.nontriv(["cutoff", beh["max"], beh["first_neg"]])
    rng = random.Random(seed + 20)
    events += grad_events(rng, 60 if tier == "quick" else 400)
    run.evaluations += len(events)
    vlib.log("gradient events done")
    tmp = vlib.shm_dir("c20")
    try:
        nruns = 6 if tier == "quick" else 40
        for ri in range(nruns + (6 if (tier == "quick" and not os.environ.get("VERIF_C20_CAP")) else 8)):
            k = rng.choice([9, 15, 21, 31, 33, 41]) if ri else 31
            rc = ri % 3 != 0
            cov = rng.randint(10, 30) if tier == "quick" else rng.randint(10, 80)
            glen = int(max(600, 140 * math.sqrt(cov))) + rng.randint(0, 300)
            if ri >= nruns + 6:
                # (thorough) a high-copy element: 55 split k-mers seen 1100 times each - above the 1000 the table can hold; they
                # belong to no row. Simulated reads plus 1100 copies of one element; data sets are drawn until the fit converges
                # (up to 8 tries), so that a table is printed to compare.
                k, rc = 21, (ri % 2 == 0)
                for _try in range(8):
                    reads = simulate_reads(rng, 700, 25, 0.01, k)
                    reads += [gen.rand_seq(rng, k + 54)] * 1100
                    rng.shuffle(reads)
                    h_ = len(reads) // 2
                    t1, t2 = os.path.join(tmp, "try_1.fastq"), os.path.join(tmp, "try_2.fastq")
                    write_fastq(t1, reads[:h_], ["I" * len(r) for r in reads[:h_]])
                    write_fastq(t2, reads[h_:], ["I" * len(r) for r in reads[h_:]])
                    if vlib.ska_cli(["cov", t1, t2, "-k", str(k)] + ([] if rc else ["--single-strand"]), timeout=300)[0] == 0:
                        break
                cov, glen = 25, 700
            elif ri >= nruns + 3:
                # the table ends inside the error tail (the coverage peak is shared by fewer than 50 k-mers per multiplicity):
                # the cutoff is capped at the table length, and the last row (count = cutoff) is Coverage
                k, rc = [15, 31, 9][ri - nruns - 3], True
                hist = [{1: 2000, 2: 300, 3: 60, 28: 45, 29: 49, 30: 40}, {1: 1500, 2: 120, 24: 40, 25: 30},
                        {1: 900, 2: 200, 3: 90, 4: 55, 40: 20, 41: 30, 42: 25}][ri - nruns - 3]
                reads = designed_reads(rng, k, hist)
                cov, glen = 30, sum(hist.values())
            elif ri == nruns + 2:
                # a high-copy element: the table runs on to a multiplicity of about 200 (mostly empty rows)
                k, rc = 21, True
                hist = {1: 600, 2: 80, 9: 55, 10: 60, 11: 80, 12: 100, 13: 80, 14: 60, 199: 10, 200: 52, 201: 5}
                reads = designed_reads(rng, k, hist)
                cov, glen = 12, sum(hist.values())
            elif ri >= nruns:
                # designed histograms: the last tabulated multiplicity is shared by EXACTLY 50 (then 51) k-mers
                k = 15 if ri == nruns else 33
                rc = True
                last = 50 if ri == nruns else 51
                hist = {1: 1500, 2: 150, 9: 60, 10: 110, 11: 160, 12: 200, 13: 160, 14: 110, 15: 70, 18: 80, 19: last, 20: 49, 21: 20}
                reads = designed_reads(rng, k, hist)
                cov, glen = 12, sum(hist.values())
            elif ri == 2 or (ri > 8 and ri % 8 == 2):
                # a very small target read without errors: no multiplicity is shared by 50 k-mers, the table is empty (cutoff 1)
                glen = rng.randint(k + 60, k + 140)
                reads = simulate_reads(rng, glen, cov, 0.0, k)
            else:
                reads = simulate_reads(rng, glen, cov, rng.choice([0.0, 0.005, 0.01, 0.03]), k)
            half = len(reads) // 2
            f1, f2 = os.path.join(tmp, "c%d_1.fastq" % ri), os.path.join(tmp, "c%d_2.fastq" % ri)
            write_fastq(f1, reads[:half], ["I" * len(r) for r in reads[:half]])
            write_fastq(f2, reads[half:], ["5" * len(r) for r in reads[half:]])
            args = ["cov", f1, f2, "-k", str(k)] + ([] if rc else ["--single-strand"])
            rcode, so, se = vlib.ska_cli(args, timeout=300)
            run.evaluations += 1
            if rcode == 124:
                # the fit is a bounded number of BFGS iterations over a table of a few hundred rows: seconds at most
                events.append({"ev": "cov", "id": ri, "panic": "ska cov did not terminate within 300 s", "reads": len(reads), "k": k})
                continue
            fit = vlib.skav("exec", [{"op": "cov", "what": "fit", "k": k, "rc": rc, "f1": f1, "f2": f2}])[0]
            boundary = rcode == 0 and fit.get("converged") and not (1e-9 < fit["w0"] < 1 - 1e-9 and fit["c"] >= 1.0)
            if boundary:
                # a fit pressed against the boundary (typically w0 -> 1: no coverage peak in the table). The sign oracle loses
                # digits in ln(1 - w0); it is still decisive when every log ratio is far from zero, otherwise the run is trivial.
                nrows_ = len([l_ for l_ in so.decode().splitlines()[1:] if len(l_.split("\t")) == 4])
                far = (0.0 < fit["w0"] < 1.0 and fit["c"] >= 1.0
                       and all(abs(log_ratio(fit["w0"], fit["c"], i)) > 1.0 for i in range(1, nrows_ + 2)))
                if not far:
                    run.notes.append("run %d: fitted parameters on the boundary (w0=%r c=%r) and a log ratio near zero: the oracle is "
                                     "undefined there (trivial)" % (ri, fit["w0"], fit["c"]))
                    continue
            if rcode != 0 or not fit.get("converged"):
                run.notes.append("run %d: optimiser did not converge / cov failed (trivial)" % ri)
                continue
            table = []
            for line in so.decode().splitlines()[1:]:
                f = line.split("\t")
                if len(f) == 4:
                    table.append([int(f[0]), int(f[1]), f[3]])
            cut = [int(x.split("\t")[1]) for x in se.decode().splitlines() if x.startswith("Estimated cutoff")]
            w0, c = fit["w0"], fit["c"]
            n = len(table)
            neg = [log_ratio(w0, c, i) < 0 for i in range(1, n + 2)]
            counts = [float(x) for x in fit["counts"]]
            gcode = vlib.skav("exec", [{"op": "cov", "what": "ll", "pars": [w0, c], "counts": counts}])[0]
            gw, gc = grad_fd(w0, c, counts)
            scale = max(1.0, abs(mix_ll(w0, c, counts)))
            grad_ok = boundary or (abs(gcode["grad"][0] - gw) <= 1e-4 * max(1.0, abs(gw), scale * 1e-3)
                                   and abs(gcode["grad"][1] - gc) <= 1e-4 * max(1.0, abs(gc), scale * 1e-3)
                                   and close(gcode["ll"], mix_ll(w0, c, counts), 1e-9))
            events.append({"ev": "cov", "id": ri, "panic": "",
                           "ctx": {"reads1": [b(r) for r in reads[:half]], "reads2": [b(r) for r in reads[half:]], "k": k, "rc": rc},
                           "table": table, "cutoff": cut[0] if cut else -1, "cutoff_fit": fit["cutoff"], "counts": fit["counts"],
                           "neg": neg, "grad_ok": grad_ok, "w0": w0, "c": c, "coverage": cov, "genome": glen})
            if n == 0:
                run.nontriv(["cov-empty", reads[:3], k, rc, len(reads)])
                run.extra["empty_table_runs"] = run.extra.get("empty_table_runs", 0) + 1
            if n >= 2 and 1 < fit["cutoff"] < n:
                run.nontriv(["cov", reads[:3], k, rc, len(reads)])
            if n >= 2 and fit["cutoff"] == n:
                run.nontriv(["cov-capped", reads[:3], k, rc, len(reads)])
                run.extra["capped_runs"] = run.extra.get("capped_runs", 0) + 1
    finally:
        shutil.rmtree(tmp, ignore_errors=True)
    vlib.log("cov runs done")
    import extras
    extras.auto_min_count(run, tier, seed)      # Cli.tla: --min-count auto composes cov and build (drift only)
    vlib.log("auto-min-count done")
    ok, bad, states = vlib.validate_trace("Trace_Cov", events, "c20", shards=12 if tier == "quick" else 16, timeout=600 if tier == "quick" else 5400)
    vlib.log("trace validated")
    run.states += states
    run.transitions += len(events)
    run.events += ok
    run.traces_validated += ok
    for e in events:
        if e["ev"] == "cov":
            s = {k_: e[k_] for k_ in ("ev", "table", "cutoff", "w0", "c", "coverage", "genome")}
            s["table"] = s["table"][:6] + ["..."]
            run.sample(s)
            break
    run.sample([e for e in events if e["ev"] == "cov.grad"][:1])
    for i in bad:
        e = events[i]
        run.fail({"kind": "trace", "event": {k_: e[k_] for k_ in e if k_ != "ctx"}, "ctx": e.get("ctx")},
                 "%s event rejected: %s" % (e["ev"], json.dumps({k_: e[k_] for k_ in e if k_ not in ("ctx", "table", "counts", "neg")})[:300]))


def replay(run, path):
    return globals()["run"](run, "quick", int(os.environ.get("VERIF_SEED", "20260926")))
