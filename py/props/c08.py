"""C08 - deleting samples leaves exactly the file built from the remaining samples."""
import random, json
import vlib, skacli, tablechecks as tc
from props.c06 import rerun_episode


def run(run, tier, seed):
    run.rule = ("design: MC_Ska (see C07) with invariant DeleteIsBuildOfRest; histories containing a delete are replayed through the "
                "CLI, alternating names on the command line and a one-name-per-line names file. traces: files of 2-8 samples, "
                "random non-empty proper subsets (adjacent, non-adjacent, first/last columns), both routes, -o and in place, "
                "refusals (unknown name, all names, mixed) after which the file must be unchanged; TLC requires the result "
                "to equal BuildTable over the remaining samples. non-trivial = every executed delete; distinct by "
                "(samples, subset, route, k)")
    run.assumptions = ["sample names are passed through a file list (name<TAB>file)", "ska nk --full-info exposes the whole table"]
    tc.design_and_replay(run, tier, seed, lambda r: any(h["op"]["do"] == "delete" for h in r["hist"]), "c08",
                         60 if tier == "quick" else 1200, focus="delete")
    rng = random.Random(seed + 7)
    sb = skacli.Sandbox("c08")
    try:
        tc.delete_episodes(run, sb, rng, tier)
        events = sb.events
    finally:
        sb.close()
    tc.validate(run, events, "c08", tier)


def replay(run, path):
    case = json.load(open(path))["case"]
    if case.get("kind") == "replay":
        import skahist
        v = skahist.replay_one((0, case["behaviour"]))
        run.evaluations += 1
        if not v.get("ok"):
            run.fail(case, "history still diverges: %s" % v.get("why"))
    else:
        rerun_episode(run, case, "c08r")
