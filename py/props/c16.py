"""C16 - bit packing, reverse complement and rolling updates are exact for all k."""
import random, itertools, json
import vlib, gen
from vlib import b, revcomp


def structured(rng, n):
    out = ["A" * n, "C" * n, "G" * n, "T" * n, ("AC" * n)[:n], ("GT" * n)[:n], ("ACGT" * n)[:n], ("TGCA" * n)[:n]]
    for pos in range(n):                      # one-hot digit in every position, each non-zero digit
        d = "CTG"[pos % 3]
        out.append("A" * pos + d + "A" * (n - pos - 1))
    out.append("G" + "A" * (n - 1))           # top two bits set
    out.append("A" * (n - 1) + "G")
    return out


def make_ops(rng, tier):
    ops = []
    nrand = 40 if tier == "quick" else 200
    for k in gen.ALLK:
        n = k - 1
        for w in ([64, 128] if k <= 31 else [128]):
            kms = structured(rng, n) + [gen.rand_seq(rng, n) for _ in range(nrand)]
            kms = [x if rng.random() < 0.8 else x.lower() for x in kms]
            for i in range(0, len(kms), 25):
                ops.append({"op": "prim", "w": w, "ctx": {"k": k, "kmers": [b(x) for x in kms[i:i + 25]]}})
            # full-length k-mers too (skalo packs whole k-mers): length k for k<=31 / k<=63
            full = structured(rng, k)[:12] + [gen.rand_seq(rng, k) for _ in range(8)]
            ops.append({"op": "prim", "w": w, "ctx": {"k": k, "kmers": [b(x) for x in full]}})
    # complete enumeration of every k-mer (arms of k-1 digits) for small k
    complete = [5, 7] if tier == "quick" else [5, 7, 9]
    for k in complete:
        n = k - 1
        allk = ["".join(t) for t in itertools.product("ACGT", repeat=n)]
        for w in (64, 128):
            for i in range(0, len(allk), 64):
                ops.append({"op": "prim", "w": w, "ctx": {"k": k, "kmers": [b(x) for x in allk[i:i + 64]]}})
    if tier == "thorough":
        k, n = 11, 10
        for w in (64, 128):
            for i in range(0, 20000, 64):
                ops.append({"op": "prim", "w": w,
                            "ctx": {"k": k, "kmers": [b(gen.rand_seq(rng, n)) for _ in range(64)]}})
    # rolling iterator + read hashes over random sequences with N, every k, both strand modes
    nseq = 2 if tier == "quick" else 8
    for k in gen.ALLK:
        for w in ([64, 128] if k <= 31 else [128]):
            for j in range(nseq):
                s = gen.plant_ns(rng, gen.rand_seq(rng, rng.randint(k, 3 * k + 20)), k)
                ops.append({"op": "iter", "w": w,
                            "ctx": {"seq": b(s), "qual": [], "k": k, "rc": j % 2 == 0, "qf": "none", "minq": 0, "reads": True}})
        for j in range(nseq):
            s = gen.rand_seq(rng, rng.randint(k, 2 * k + 30))
            if j % 2 == 0:      # a window whose arms are their own reverse complement: both strands must hash alike
                at = rng.randint(0, len(s) - k)
                s = s[:at] + gen.selfrc_window(rng, k) + s[at + k:]
            ops.append({"op": "hash", "ctx": {"seq": b(s), "rcseq": b(revcomp(s)), "k": k, "rc": j % 2 == 0}})
    return ops


def run(run, tier, seed):
    run.rule = ("design: MC_RevComp runs the shuffle network of UInt::rev_comp on position labels for every ksize 1..32 "
                "(u64) and 1..64 (u128), masks for all 30 k; MC_SplitKmer checks rolling = from-scratch state. traces: "
                "encode_kmer / rev_comp / generate_masks / decode_kmer / skalo_decode_kmer on every k-mer for k<=7 (quick) "
                "/ k<=9 (thorough), structured (one-hot in every position, top bits) and random k-mers for every k and "
                "width; SplitKmer with read hashes and NtHashIterator over random sequences with N. every event is "
                "non-trivial; distinct by (k, width, k-mer / sequence)")
    run.assumptions = ["ntHash values are uninterpreted: only rolled = from-scratch and strand symmetry are checked",
                       "skav's digit projection of packed integers"]
    run.add_design(vlib.design_check("MC_RevComp", "MC_RevComp", "c16-revcomp", workers=2, timeout=300))
    run.add_design(vlib.design_check("MC_SplitKmer", "MC_SplitKmer_c16", "c16-roll", workers=8, timeout=900))
    rng = random.Random(seed)
    ops = make_ops(rng, tier)
    events = vlib.skav_parallel("exec", ops, jobs=8)
    nk = 0
    for e in events:
        c = e["ctx"]
        if e["ev"] == "prim":
            for x in c["kmers"]:
                run.nontriv([c["k"], e["w"], x])
                nk += 1
        else:
            run.nontriv([e["ev"], c["k"], e.get("w"), c["seq"]])
            nk += 1
    run.evaluations = nk
    ok, bad, states = vlib.validate_trace("Trace_Kmer", events, "c16", shards=16, timeout=2400)
    run.states += states
    run.transitions += len(events)
    run.traces_validated += ok
    run.events += ok
    small = [e for e in events if e["ev"] == "prim" and e["ctx"]["k"] == 5][:1]
    if small:
        s = dict(small[0]); s["res"] = s["res"][:2]; s["ctx"] = {"k": 5, "kmers": s["ctx"]["kmers"][:2]}
        run.sample(s)
    for i in bad:
        e = events[i]
        run.fail({"kind": "trace", "event": e}, "event %s rejected (k=%s w=%s)" % (e["ev"], e["ctx"].get("k"), e.get("w")))


def replay(run, path):
    case = json.load(open(path))["case"]
    e = case["event"]
    op = {"op": e["ev"], "w": e.get("w", 64), "ctx": e["ctx"]}
    events = vlib.skav("exec", [op])
    ok, bad, states = vlib.validate_trace("Trace_Kmer", events, "c16-replay", shards=1)
    run.evaluations += 1
    for i in bad:
        run.fail({"kind": "trace", "event": events[i]}, "event still rejected")
