"""C15 - ambiguity codes form the union algebra; complement respects it (complete enumeration)."""
import json
import vlib


def run(run, tier, seed):
    run.rule = ("complete: all 4x256 cells of IUPAC, all 256 of RC_IUPAC, is_ambiguous and base_to_prob on the 15 IUPAC "
                "letters, U and '-' in both cases, dumped from the real tables and checked cell by cell against the set "
                "algebra of spec/Bases.tla by TLC; design model MC_Iupac explores every order/multiplicity of observations. "
                "non-trivial = every cell whose argument is an IUPAC letter, U or '-' (distinct by (table, cell))")
    run.assumptions = ["TLC evaluates the set-algebra definitions of Bases.tla correctly", "skav dumps the tables verbatim"]
    run.add_design(vlib.design_check("MC_Iupac", "MC_Iupac", "c15-iupac", workers=2, timeout=300))
    events = vlib.skav("tables", [])
    ok, bad, states = vlib.validate_trace("Trace_Kmer", events, "c15", shards=1, timeout=300)
    run.states += states
    run.transitions += len(events)
    run.traces_validated += ok
    run.events += ok
    run.exhaustive = True
    cells = 0
    letters = [ord(c) for c in "ACGTRYSWKMBDHVN"]
    dom = set(letters + [x + 32 for x in letters] + [85, 117, 45])
    for e in events:
        n = len(e["row"])
        cells += n
        for c in dom:
            run.nontriv([e["ev"], e.get("base"), c])
    run.evaluations = cells
    run.sample({"event": "prim.iupac base=A row (existing code byte -> new code byte)",
                "row_64_95": events[0]["row"][64:96]})
    run.sample({"event": "prim.rc", "row_64_95": events[4]["row"][64:96]})
    for i in bad:
        e = events[i]
        run.fail({"kind": "table", "event": e}, "table %s (base=%s) disagrees with the union algebra" % (e["ev"], e.get("base")))


def replay(run, path):
    return globals()["run"](run, "quick", 0)
