"""C15 - ambiguity codes form the union algebra; complement respects it (complete enumeration)."""
import json, random
import vlib, gen, skacli


def run(run, tier, seed):
    run.rule = ("complete: all 4x256 cells of IUPAC, all 256 of RC_IUPAC, is_ambiguous and base_to_prob on the 15 IUPAC "
                "letters, U and '-' in both cases, dumped from the real tables and checked cell by cell against the set "
                "algebra of spec/Bases.tla by TLC; design model MC_Iupac explores every order/multiplicity of observations. "
                "non-trivial = every cell whose argument is an IUPAC letter, U or '-' (distinct by (table, cell))")
    run.assumptions = ["TLC evaluates the set-algebra definitions of Bases.tla correctly", "skav dumps the tables verbatim"]
    run.add_design(vlib.design_check("MC_Iupac", "MC_Iupac", "c15-iupac", workers=2, timeout=300))
    events = vlib.skav("tables", [])
    ok, bad, states = vlib.validate_trace("Trace_Kmer", events, "c15", shards=1, timeout=300)
    run.states += states
    run.transitions += len(events)
    run.traces_validated += ok
    run.events += ok
    run.exhaustive = True
    cells = 0
    letters = [ord(c) for c in "ACGTRYSWKMBDHVN"]
    dom = set(letters + [x + 32 for x in letters] + [85, 117, 45])
    for e in events:
        n = len(e["row"])
        cells += n
        for c in dom:
            run.nontriv([e["ev"], e.get("base"), c])
    run.evaluations = cells
    run.sample({"event": "prim.iupac base=A row (existing code byte -> new code byte)",
                "row_64_95": events[0]["row"][64:96]})
    run.sample({"event": "prim.rc", "row_64_95": events[4]["row"][64:96]})
    for i in bad:
        e = events[i]
        run.fail({"kind": "table", "event": e}, "table %s (base=%s) disagrees with the union algebra" % (e["ev"], e.get("base")))
    weights_in_use(run, tier, seed)


def weights_in_use(run, tier, seed):
    """The weights as `ska distance --allow-ambiguous` uses them: tables whose rows hold ambiguity codes (the same
    code in two samples, codes with overlapping and disjoint sets, N, gaps), every pair's printed distance against
    Table!DistAmb (1 - sum of products of the uniform weights per shared row)."""
    rng = random.Random(seed + 15)
    sb = skacli.Sandbox("c15")
    try:
        for ti in range(8 if tier == "quick" else 80):
            k = rng.choice(gen.ALLK)
            n = rng.choice([2, 3, 3, 4, 6])
            nrows = rng.randint(10, 60)
            alphabet = ["ACGT" + "RYSWKMBDHVN" + "--", "AARRNN-", "ACGTN", "RYKMSW", "BDHVN-A"][ti % 5]
            rows = gen.random_table(rng, k, n, nrows, alphabet=alphabet)
            # rows in which two samples hold the SAME code next to a third that differs, and fully constant code rows
            for r in rows[::4]:
                c = ord(rng.choice("RYSWKMBDHVN"))
                r[1] = [c, c] + [ord(rng.choice("ACGT-")) for _ in range(n - 2)]
            if n >= 3:
                rows[1][1] = [ord("N")] * n
                rows[2][1] = [ord("S")] * n
            sb.reset()
            sb.import_table("x", k, True, ["w%d_%d" % (ti, i) for i in range(n)], rows)
            for minf in ([0, 1000], [rng.choice([300, 500, 700]), 1000]):
                sb.distance("x", n, minf, allow_ambig=True, threads=rng.choice([1, 2]))
                run.evaluations += 1
                run.nontriv([rows, minf])
        events = sb.events
    finally:
        sb.close()
    from props.c06 import validate
    validate(run, events, "c15d", tier, shards=4)


def replay(run, path):
    return globals()["run"](run, "quick", 0)
