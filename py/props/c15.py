"""C15 - ambiguity codes form the union algebra; complement respects it (complete enumeration)."""
import json, random
import vlib, gen, skacli


def run(run, tier, seed):
    run.rule = ("complete: all 4x256 cells of IUPAC, all 256 of RC_IUPAC, is_ambiguous and base_to_prob on the 15 IUPAC "
                "letters, U and '-' in both cases, dumped from the real tables and checked cell by cell against the set "
                "algebra of spec/Bases.tla by TLC; design model MC_Iupac explores every order/multiplicity of observations; the union IN USE: "
                "every (stored code, next base) pair as a sequence of sightings of one split k-mer through `ska build` + `ska nk`. "
                "non-trivial = every cell whose argument is an IUPAC letter, U or '-' (distinct by (table, cell))")
    run.assumptions = ["TLC evaluates the set-algebra definitions of Bases.tla correctly", "skav dumps the tables verbatim"]
    run.add_design(vlib.design_check("MC_Iupac", "MC_Iupac", "c15-iupac", workers=2, timeout=300))
    events = vlib.skav("tables", [])
    ok, bad, states = vlib.validate_trace("Trace_Kmer", events, "c15", shards=1, timeout=300)
    run.states += states
    run.transitions += len(events)
    run.traces_validated += ok
    run.events += ok
    run.exhaustive = True
    cells = 0
    letters = [ord(c) for c in "ACGTRYSWKMBDHVN"]
    dom = set(letters + [x + 32 for x in letters] + [85, 117, 45])
    for e in events:
        n = len(e["row"])
        cells += n
        for c in dom:
            run.nontriv([e["ev"], e.get("base"), c])
    run.evaluations = cells
    run.sample({"event": "prim.iupac base=A row (existing code byte -> new code byte)",
                "row_64_95": events[0]["row"][64:96]})
    run.sample({"event": "prim.rc", "row_64_95": events[4]["row"][64:96]})
    for i in bad:
        e = events[i]
        run.fail({"kind": "table", "event": e}, "table %s (base=%s) disagrees with the union algebra" % (e["ev"], e.get("base")))
    weights_in_use(run, tier, seed)
    union_in_use(run, tier, seed)


def union_in_use(run, tier, seed):
    """The union as `ska build` uses it: for every stored code (each of the 15 non-empty sets of bases, met in a shuffled
    order) and every next base, a sample whose records show one split k-mer with exactly that sequence of middle bases;
    the stored code must be the code of the union - complete over (code, base), both strand modes."""
    import os, itertools, shutil
    from vlib import b
    rng = random.Random(seed + 1515)
    tmp = vlib.shm_dir("c15u")
    events = []
    try:
        ci = 0
        for n_ in (1, 2, 3, 4):
            for S in itertools.combinations("ACGT", n_):
                for nxt in "ACGT":
                    ci += 1
                    k = [9, 17, 31, 33][ci % 4]
                    rc = ci % 2 == 0
                    h = (k - 1) // 2
                    up, lo = gen.rand_seq(rng, h), gen.rand_seq(rng, h)
                    while up + lo == vlib.revcomp(up + lo):
                        up = gen.rand_seq(rng, h)
                    order = list(S)
                    rng.shuffle(order)
                    recs = [up + m + lo for m in order + [nxt]]
                    fa = os.path.join(tmp, "u%d.fa" % ci)
                    vlib.write_fasta(fa, recs)
                    out = os.path.join(tmp, "u%d" % ci)
                    rcode, so, se = vlib.ska_cli(["build", "-o", out, "-k", str(k), fa] + ([] if rc else ["--single-strand"]))
                    ctx = {"samples": [[b(r) for r in recs]], "names": ["u%d" % ci], "k": k, "rc": rc}
                    run.evaluations += 1
                    run.nontriv(["union-in-use", "".join(S), nxt])
                    if rcode != 0:
                        events.append({"ev": "nk", "ctx": ctx, "panic": se.decode(errors="replace")[-200:] or "exit"})
                        continue
                    rcode, so, se = vlib.ska_cli(["nk", "--full-info", out + ".skf"])
                    events.append({"ev": "nk", "ctx": ctx, "panic": "" if rcode == 0 else "nk failed", "table": vlib.parse_nk(so.decode())})
    finally:
        shutil.rmtree(tmp, ignore_errors=True)
    ok, bad, states = vlib.validate_trace("Trace_Kmer", events, "c15u", shards=4, timeout=600)
    run.states += states
    run.transitions += len(events)
    run.traces_validated += ok
    run.events += ok
    for i in bad:
        e = events[i]
        seq = ["".join(chr(x) for x in r)[(e["ctx"]["k"] - 1) // 2] for r in e["ctx"]["samples"][0]]
        run.fail({"kind": "union-in-use", "event": e}, "middle bases %s met in this order: the stored code is not the code of their union" % ",".join(seq))


def weights_in_use(run, tier, seed):
    """The weights as `ska distance --allow-ambiguous` uses them: tables whose rows hold ambiguity codes (the same
    code in two samples, codes with overlapping and disjoint sets, N, gaps), every pair's printed distance against
    Table!DistAmb (1 - sum of products of the uniform weights per shared row)."""
    rng = random.Random(seed + 15)
    sb = skacli.Sandbox("c15")
    try:
        for ti in range(8 if tier == "quick" else 80):
            k = rng.choice(gen.ALLK)
            n = rng.choice([2, 3, 3, 4, 6])
            nrows = rng.randint(10, 60)
            alphabet = ["ACGT" + "RYSWKMBDHVN" + "--", "AARRNN-", "ACGTN", "RYKMSW", "BDHVN-A"][ti % 5]
            rows = gen.random_table(rng, k, n, nrows, alphabet=alphabet)
            # rows in which two samples hold the SAME code next to a third that differs, and fully constant code rows
            for r in rows[::4]:
                c = ord(rng.choice("RYSWKMBDHVN"))
                r[1] = [c, c] + [ord(rng.choice("ACGT-")) for _ in range(n - 2)]
            if n >= 3:
                rows[1][1] = [ord("N")] * n
                rows[2][1] = [ord("S")] * n
            sb.reset()
            sb.import_table("x", k, True, ["w%d_%d" % (ti, i) for i in range(n)], rows)
            for minf in ([0, 1000], [rng.choice([300, 500, 700]), 1000]):
                sb.distance("x", n, minf, allow_ambig=True, threads=rng.choice([1, 2]))
                run.evaluations += 1
                run.nontriv([rows, minf])
        events = sb.events
    finally:
        sb.close()
    from props.c06 import validate
    validate(run, events, "c15d", tier, shards=4)


def replay(run, path):
    return globals()["run"](run, "quick", 0)
