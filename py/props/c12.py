"""C12 - read filtering keeps exactly the k-mers seen min-count times at passing quality."""
import os, random, json, gzip, shutil
import vlib, gen
from vlib import b, revcomp

RULES = {"none": "no-filter", "middle": "middle", "strict": "strict"}


def write_fastq(path, reads, quals, gz=False):
    data = "".join("@r%d\n%s\n+\n%s\n" % (i, r, q) for i, (r, q) in enumerate(zip(reads, quals))).encode()
    if gz:
        with gzip.open(path, "wb") as f:
            f.write(data)
    else:
        open(path, "wb").write(data)


def simulate(rng, k, minq):
    """Reads from a small genome: both orientations, errors, N, qualities hitting minq-1, minq, minq+1."""
    g = gen.rand_seq(rng, rng.randint(max(150, 3 * k), max(220, 5 * k)))
    # windows whose arms are their own reverse complement: forward and reverse reads of them must be counted together
    for _ in range(2):
        at = rng.randint(0, len(g) - k)
        g = g[:at] + gen.selfrc_window(rng, k) + g[at + k:]
    cov = rng.randint(3, 10)
    rlen_lo, rlen_hi = k, max(k + 1, min(3 * k, 150))
    nreads = max(4, (cov * len(g)) // ((rlen_lo + rlen_hi) // 2))
    reads, quals = [], []
    for _ in range(nreads):
        n = rng.randint(rlen_lo, rlen_hi)
        n = min(n, len(g))
        a = rng.randint(0, len(g) - n)
        s = list(g[a:a + n])
        for i in range(n):
            x = rng.random()
            if x < 0.01:
                s[i] = rng.choice("ACGT")
            elif x < 0.013:
                s[i] = "N"
        s = "".join(s)
        if rng.random() < 0.5:
            s = revcomp(s)
        # soft-masked reads (lower case, as some trimmers and converters write them): the whole read, its start, or
        # single bases; the case of a base plays no part in what is counted
        x = rng.random()
        if x < 0.08:
            s = s.lower()
        elif x < 0.16:
            c = rng.randint(1, min(n, k + 2))
            s = s[:c].lower() + s[c:]
        elif x < 0.24:
            s = "".join(ch.lower() if rng.random() < 0.1 else ch for ch in s)
        q = []
        for i in range(n):
            x = rng.random()
            if x < 0.7:
                ph = rng.randint(min(40, minq + 1), 40) if minq < 40 else 40
            elif x < 0.8:
                ph = minq                       # exactly at the threshold
            elif x < 0.9:
                ph = max(0, minq - 1)           # one below
            else:
                ph = rng.randint(0, 40)
            q.append(chr(33 + ph))
        reads.append(s)
        quals.append("".join(q))
    return reads, quals


def run(run, tier, seed):
    run.rule = ("design: MC_KmerFilter - the Bloom+count-table state machine over every sequence of <=6 (quick) / <=8 "
                "(thorough) observations of 3 full k-mers, min_count 1..4, with/without a hash collision: exact without "
                "collision, added at the moment the count reaches the threshold, never lost for min_count<=2 (the general "
                "'never lost' is REFUTED by TLC under a collision for min_count>=3: known finding K12); collision-free "
                "behaviours replayed into the real KmerFilter on both strand modes; the exactness for any number of sightings is an "
                "inductive invariant discharged by Apalache (KmerFilterInd, unbounded counters). MC_SplitKmer quality config: every "
                "record over {A,N} x qualities {min-1,min,min+1} x 3 rules, iterator = declarative windows, replayed into "
                "SplitKmer. traces: simulated read pairs (coverage 3-10, errors, N, both orientations, qualities at the "
                "threshold, a quarter of the reads partly or wholly lower case), min-count 1..6, min-qual 0..40, 3 rules, all k, both strand modes, through `ska build -f` + "
                "`ska nk`; TLC computes ReadPairs; one sample of > 10^5 distinct k-mers (quick) / 4x10^5 judged on counted totals. non-trivial = a class exactly at min-count, one at min-count-1 and a "
                "quality exactly at the threshold; distinct by (reads, parameters)")
    run.assumptions = ["hash collisions of the counting filter cannot be forced in the real code; the 0.1% bound is a counted statistic",
                       "FASTQ files written by the driver are parsed by needletail as intended"]
    d = vlib.design_check("MC_KmerFilter", "MC_KmerFilter_quick" if tier == "quick" else "MC_KmerFilter_thorough",
                          "c12-filter", workers=8, timeout=1800, want_replay=True)
    run.add_design(d)
    d2 = vlib.design_check("MC_SplitKmer", "MC_SplitKmer_qual", "c12-qual", workers=8, timeout=1800, want_replay=True)
    run.add_design(d2)
    # the same exactness statement for ANY number of sightings: an inductive invariant discharged by Apalache
    # (spec/apalache/KmerFilterInd.tla; MC_KmerFilter's SameStep ties its step to FilterStep)
    run.extra["unbounded_inductive"] = vlib.apalache_inductive("KmerFilterInd")
    rep = d["replay"] + d2["replay"]
    verdicts = vlib.skav_parallel("replay", rep, jobs=12)
    run.replayed += len(verdicts)
    for beh, v in zip(rep, verdicts):
        if v.get("ok") and v.get("drift"):
            run.drift += 1
        if not v.get("ok"):
            run.fail({"kind": "replay", "behaviour": beh, "verdict": v},
                     "%s behaviour diverges in the real code: %s %s" % (beh["kind"], v.get("why"),
                                                                        json.dumps({x: beh[x] for x in beh if x in ("seq", "qual", "rule", "minq", "minc", "obs")})[:200]))
        elif beh["kind"] == "iter" and beh["rule"] != "none" and 53 in beh["qual"]:
            run.nontriv(["q", beh["seq"], beh["qual"], beh["rule"], beh["rc"]])
        elif beh["kind"] == "filter" and beh["minc"] >= 2:
            run.nontriv(["f", beh["obs"], beh["minc"]])
    run.sample({"replayed_behaviour": d["replay"][len(d["replay"]) // 2]})
    run.sample({"replayed_behaviour": d2["replay"][len(d2["replay"]) // 2]})

    filter_trace(run, tier, seed)
    rng = random.Random(seed + 12)
    ncase = 36 if tier == "quick" else 400
    tmp = vlib.shm_dir("c12")
    events = []
    try:
        for ci in range(ncase):
            k = gen.ALLK[ci % 30]
            rc = ci % 3 != 0
            minq = rng.choice([0, 1, 10, 20, 20, 30, 39, 40])
            minc = rng.choice([1, 2, 2, 3, 3, 4, 5, 6])
            rule = ["none", "middle", "strict"][ci % 3] if ci >= 6 else "strict"
            reads, quals = simulate(rng, k, minq)
            half = len(reads) // 2
            f1, f2 = os.path.join(tmp, "r%d_1.fastq%s" % (ci, ".gz" if ci % 2 else "")), os.path.join(tmp, "r%d_2.fastq" % ci)
            write_fastq(f1, reads[:half], quals[:half], gz=bool(ci % 2))
            write_fastq(f2, reads[half:], quals[half:])
            fl = os.path.join(tmp, "l%d.txt" % ci)
            open(fl, "w").write("s\t%s\t%s\n" % (f1, f2))
            out = os.path.join(tmp, "o%d" % ci)
            args = ["build", "-o", out, "-k", str(k), "-f", fl, "--min-count", str(minc), "--min-qual", str(minq),
                    "--qual-filter", RULES[rule]] + ([] if rc else ["--single-strand"])
            rcode, so, se = vlib.ska_cli(args)
            ctx = {"reads1": [b(r) for r in reads[:half]], "quals1": [b(q) for q in quals[:half]],
                   "reads2": [b(r) for r in reads[half:]], "quals2": [b(q) for q in quals[half:]],
                   "k": k, "rc": rc, "minc": minc, "minq": minq, "rule": rule}
            run.evaluations += 1
            if rcode != 0:
                events.append({"ev": "reads", "id": ci, "ctx": ctx, "panic": se.decode(errors="replace")[-200:] or "exit"})
                continue
            rcode, so, se = vlib.ska_cli(["nk", "--full-info", out + ".skf"])
            t = vlib.parse_nk(so.decode())
            events.append({"ev": "reads", "id": ci, "ctx": ctx, "panic": "" if rcode == 0 else "nk failed",
                           "dict": [[r[0], r[1][0]] for r in t["rows"]]})
            if minc >= 2 and rule != "none" and any(chr(33 + minq) in q for q in quals):
                run.nontriv([reads, quals, k, rc, minc, minq, rule])
        events.append(collision_case(tmp))
        run.evaluations += 1
        events.append(big_sample(tmp, rng, 120000 if tier == "quick" else 400000))
        run.evaluations += 1
        run.nontriv(["big-sample", events[-1]["ctx"]["distinct"]])
        if tier != "quick" or os.environ.get("VERIF_C20_CAP"):
            # (thorough) more than a million distinct k-mers, every one of them seen exactly three times (twice in the first
            # file, once reverse-complemented in the second), --min-count 3: the count table holds them all at once
            events.append(big_sample(tmp, rng, 1100000, minc=3, whole=3))
            run.evaluations += 1
            run.nontriv(["million-sample", events[-1]["ctx"]["distinct"]])
    finally:
        shutil.rmtree(tmp, ignore_errors=True)
    validate(run, events, "c12", tier)


def big_sample(tmp, rng, glen, k=31, minc=2, whole=0):
    """One sample with more than 10^5 distinct k-mers, almost all of them seen once (every window of a random sequence,
    tiled by 150-base reads that overlap by k-1), a 3 kb stretch read twice: with --min-count 2 exactly the k-mers of that
    stretch belong in the file; whatever else is there came in through the counting filter and must stay below 0.1 % of
    the distinct k-mers of the sample."""
    g = gen.rand_seq(rng, glen)
    reads = [g[a:a + 150] for a in range(0, glen - k + 1, 150 - (k - 1))]
    reads = [r for r in reads if len(r) >= k]
    if whole:
        # every window `whole` times: the tiling twice in the first file, once more (reverse-complemented) in the second
        one = list(reads)
        reads = one * (whole - 1) + [revcomp(r) for r in one]
        half = len(one) * (whole - 1)
    else:
        reads += [g[a:a + 150] for a in range(0, 3000, 150 - (k - 1))]
        rng.shuffle(reads)
        reads = [revcomp(r) if rng.random() < 0.5 else r for r in reads]
        half = len(reads) // 2
    f1, f2 = os.path.join(tmp, "big_1.fastq"), os.path.join(tmp, "big_2.fastq")
    write_fastq(f1, reads[:half], ["I" * len(r) for r in reads[:half]])
    write_fastq(f2, reads[half:], ["I" * len(r) for r in reads[half:]])
    fl = os.path.join(tmp, "big.txt")
    open(fl, "w").write("big\t%s\t%s\n" % (f1, f2))
    out = os.path.join(tmp, "big")
    count = {}
    for r in reads:
        for i in range(len(r) - k + 1):
            w = r[i:i + k]
            c = min(w, revcomp(w))
            count[c] = count.get(c, 0) + 1
    reached = {c for c, n in count.items() if n >= minc}
    ctx = {"k": k, "rc": True, "minc": minc, "distinct": len(count), "reached": len(reached), "genome": glen, "reads": len(reads)}
    rcode, so, se = vlib.ska_cli(["build", "-o", out, "-k", str(k), "-f", fl, "--min-count", str(minc), "--qual-filter", "no-filter"])
    if rcode != 0:
        return {"ev": "reads.stat", "ctx": ctx, "panic": se.decode(errors="replace")[-200:] or "exit", "kept_reached": 0, "kept_below": 0, "kept_unseen": 0}
    rcode, so, se = vlib.ska_cli(["nk", "--full-info", out + ".skf"])
    t = vlib.parse_nk(so.decode())
    sets = {"A": "A", "C": "C", "G": "G", "T": "T", "R": "AG", "Y": "CT", "S": "CG", "W": "AT", "K": "GT", "M": "AC",
            "B": "CGT", "D": "AGT", "H": "ACT", "V": "ACG", "N": "ACGT"}
    h = (k - 1) // 2
    kept = set()
    for row in t["rows"]:
        arms = "".join("ACTG"[d] for d in row[0])
        for x in sets.get(chr(row[1][0]).upper(), ""):
            w = arms[:h] + x + arms[h:]
            kept.add(min(w, revcomp(w)))
    return {"ev": "reads.stat", "ctx": ctx, "panic": "" if rcode == 0 else "nk failed", "kept_reached": len(kept & reached),
            "kept_below": len([c for c in kept if c in count and c not in reached]), "kept_unseen": len([c for c in kept if c not in count])}


# ---- known finding K12: a constructed full-hash (ntHash) collision ---------------------------
_M = (1 << 64) - 1
_H = {"A": 0x3c8bfbb395c60474, "C": 0x3193c18562a02b4c, "T": 0x295549f54be24456, "G": 0x20323ed082572324}


def _rol(x, r):
    r %= 64
    return ((x << r) | (x >> (64 - r))) & _M if r else x


def nthash_fwd(s):
    h = 0
    for i, c in enumerate(s):
        h ^= _rol(_H[c], len(s) - 1 - i)
    return h


def colliding_kmers(k=63):
    """Two different k-mers with the same forward ntHash (the hash is GF(2)-linear in the
    per-position choice of base, so a dependency among rotated seed differences gives a collision)."""
    d1, d2 = _H["A"] ^ _H["C"], _H["A"] ^ _H["T"]
    vecs = []
    for i in range(k):
        vecs += [_rol(d1, k - 1 - i), _rol(d2, k - 1 - i)]
    basis, dep = {}, None
    for idx, v in enumerate(vecs):
        combo = 1 << idx
        while v:
            p = v.bit_length() - 1
            if p in basis:
                v ^= basis[p][0]; combo ^= basis[p][1]
            else:
                basis[p] = (v, combo)
                break
        if v == 0:
            dep = combo
            break
    s, t = [], []
    for i in range(k):
        a, b_ = (dep >> (2 * i)) & 1, (dep >> (2 * i + 1)) & 1
        pair = {(0, 0): "AA", (1, 0): "AC", (0, 1): "AT", (1, 1): "CT"}[(a, b_)]
        s.append(pair[0]); t.append(pair[1])
    return "".join(s), "".join(t)


def collision_case(tmp):
    """x, x | y, x with h(x) = h(y), --min-count 3, single strand: x reaches the count."""
    k = 63
    x, y = colliding_kmers(k)
    assert x != y and nthash_fwd(x) == nthash_fwd(y)
    q = "I" * k
    f1, f2 = os.path.join(tmp, "col_1.fastq"), os.path.join(tmp, "col_2.fastq")
    write_fastq(f1, [x, x], [q, q])
    write_fastq(f2, [y, x], [q, q])
    fl = os.path.join(tmp, "col.txt")
    open(fl, "w").write("s\t%s\t%s\n" % (f1, f2))
    out = os.path.join(tmp, "col")
    rcode, so, se = vlib.ska_cli(["build", "-o", out, "-k", str(k), "-f", fl, "--min-count", "3", "--min-qual", "0",
                                  "--qual-filter", "no-filter", "--single-strand"])
    ctx = {"reads1": [b(x), b(x)], "quals1": [b(q), b(q)], "reads2": [b(y), b(x)], "quals2": [b(q), b(q)],
           "k": k, "rc": False, "minc": 3, "minq": 0, "rule": "none", "hash_collision": True}
    if rcode != 0:
        return {"ev": "reads", "id": -12, "ctx": ctx, "panic": se.decode(errors="replace")[-200:] or "exit"}
    t = vlib.parse_nk(vlib.ska_cli(["nk", "--full-info", out + ".skf"])[1].decode())
    return {"ev": "reads", "id": -12, "ctx": ctx, "panic": "", "dict": [[r[0], r[1][0]] for r in t["rows"]]}


def filter_trace(run, tier, seed):
    """Stateful trace validation of the real KmerFilter: reads -> per-window (hash, added-now) events,
    checked step by step against the model's Bloom/count state (Trace_Filter.tla)."""
    rng = random.Random(seed + 112)
    ops, metas = [], []
    for ei in range(12 if tier == "quick" else 120):
        k = rng.choice([5, 7, 9, 15, 21, 31])
        rc = rng.random() < 0.6
        minc = rng.choice([1, 2, 3, 3, 4, 6])
        g = gen.rand_seq(rng, rng.randint(3 * k, 6 * k))
        reads = []
        for _ in range(rng.randint(5, 30)):
            n = rng.randint(k, min(len(g), 2 * k + 5))
            a = rng.randint(0, len(g) - n)
            s = g[a:a + n]
            reads.append(revcomp(s) if rng.random() < 0.5 else s)
        ops.append({"op": "filter_seq", "w": 64, "k": k, "rc": rc, "minc": minc, "reads": [b(r) for r in reads]})
        metas.append((k, rc, minc))
    events = []
    for (k, rc, minc), ev in zip(metas, vlib.skav_parallel("exec", ops, jobs=8)):
        events.append({"ev": "reset", "minc": minc, "k": k, "rc": rc, "stateful": True})
        if ev.get("panic"):
            events.append({"ev": "observe", "h": [0, 0], "pass": "panic", "stateful": True})
            continue
        for o in ev["obs"]:
            events.append({"ev": "observe", "h": o["h"], "pass": o["ord"] == 0, "stateful": True})
        run.evaluations += 1
        if minc >= 2:
            run.nontriv(["ftrace", k, rc, minc, len(ev["obs"])])
    ok, bad, states = vlib.validate_trace("Trace_Filter", events, "c12f", shards=6, timeout=900)
    run.states += states
    run.transitions += len(events)
    run.events += ok
    run.traces_validated += sum(1 for e in events if e["ev"] == "reset")
    # Trace_Filter follows the filter step by step (Bloom set, count table): implementation-shaped, so a step that differs is
    # MODEL DRIFT. The property's clause is decided per episode: the k-mers ever let through are exactly those sighted at
    # least min_count times (k-mers identified by their 64-bit hash token).
    episodes, cur = [], None
    for e in events:
        if e["ev"] == "reset":
            cur = {"reset": e, "obs": []}
            episodes.append(cur)
        else:
            cur["obs"].append(e)
    for ep in episodes:
        minc = ep["reset"]["minc"]
        if any(o["pass"] == "panic" for o in ep["obs"]):
            run.fail({"kind": "filtertrace", "episode": [ep["reset"]] + ep["obs"][:50]}, "KmerFilter panicked")
            continue
        cnt = {}
        for o in ep["obs"]:
            cnt[tuple(o["h"])] = cnt.get(tuple(o["h"]), 0) + 1
        want = {h for h, c in cnt.items() if c >= minc}
        got = {tuple(o["h"]) for o in ep["obs"] if o["pass"]}
        if want != got:
            run.fail({"kind": "filtertrace", "episode": [ep["reset"]] + ep["obs"][:200], "lost": len(want - got), "extra": len(got - want)},
                     "KmerFilter (min_count=%s k=%s rc=%s): %d k-mers seen often enough never passed, %d passed without being seen often enough" %
                     (minc, ep["reset"].get("k"), ep["reset"].get("rc"), len(want - got), len(got - want)))
    if bad:
        run.drift += len(bad)
        vlib.log("MODEL DRIFT (KmerFilter.tla): %d episodes where a single filter step differs from the model's" % len(bad))


LAST = {}


def validate(run, events, tag, tier):
    # extras/seen are summed by the trace spec; read them back from the TRACE-END lines
    ok, bad, states = vlib.validate_trace("Trace_Reads", events, tag, shards=12 if tier == "quick" else 16, timeout=3000)
    run.states += states
    run.transitions += len(events)
    run.events += ok
    run.traces_validated += ok
    extras, seen = vlib.LAST_EXTRA.get("extras", 0), vlib.LAST_EXTRA.get("seen", 0)
    run.extra["filter_false_positive_entries"] = extras
    run.extra["distinct_entries_seen"] = seen
    if events:
        e = dict(events[0]); c = dict(e["ctx"])
        for key in ("reads1", "quals1", "reads2", "quals2"):
            c[key] = ["".join(map(chr, x)) for x in c[key][:2]] + ["..."]
        e["ctx"] = c; e["dict"] = e.get("dict", [])[:2]
        run.sample(e)
    for i in bad:
        e = events[i]
        c = e["ctx"]
        run.fail({"kind": "trace", "event": e, "hash_collision": bool(c.get("hash_collision"))},
                 "reads event rejected: k=%s rc=%s min-count=%s min-qual=%s rule=%s" %
                 (c["k"], c["rc"], c["minc"], c.get("minq", "-"), c.get("rule", "none")) +
                 ("" if e["ev"] != "reads.stat" else " | large sample: %d distinct, %d reached the count; file holds %d of those, %d below the count, %d never seen"
                  % (c["distinct"], c["reached"], e["kept_reached"], e["kept_below"], e["kept_unseen"])))
    if seen and extras * 1000 >= seen:
        run.fail({"kind": "collisions", "extras": extras, "seen": seen},
                 "below-count k-mers entered the dictionary for %d of %d distinct entries (>= 0.1%%)" % (extras, seen))


def replay(run, path):
    case = json.load(open(path))["case"]
    if case.get("kind") == "replay":
        v = vlib.skav("replay", [case["behaviour"]])[0]
        run.evaluations += 1
        if not v.get("ok"):
            run.fail(case, "replayed behaviour still diverges: %s" % v.get("why"))
        return
    if case.get("kind") != "trace":
        return
    c = case["event"]["ctx"]
    if case["event"].get("ev") == "reads.stat":
        # the large sample is re-generated from the seed (same generator, same order of draws is not needed: any such
        # sample shows the same rate)
        tmp = vlib.shm_dir("c12r")
        try:
            evs = [big_sample(tmp, random.Random(c["genome"]), c["genome"], k=c["k"], minc=c["minc"])]
        finally:
            shutil.rmtree(tmp, ignore_errors=True)
        run.evaluations += 1
        ok, bad, states = vlib.validate_trace("Trace_Reads", evs, "c12-replay", shards=1)
        for i in bad:
            run.fail({"kind": "trace", "event": evs[i]}, "large-sample statistic still violates the clauses on re-execution")
        return
    tmp = vlib.shm_dir("c12r")
    try:
        dec = lambda L: ["".join(map(chr, x)) for x in L]
        f1, f2 = os.path.join(tmp, "a.fastq"), os.path.join(tmp, "b.fastq")
        write_fastq(f1, dec(c["reads1"]), dec(c["quals1"]))
        write_fastq(f2, dec(c["reads2"]), dec(c["quals2"]))
        fl = os.path.join(tmp, "l.txt")
        open(fl, "w").write("s\t%s\t%s\n" % (f1, f2))
        out = os.path.join(tmp, "o")
        args = ["build", "-o", out, "-k", str(c["k"]), "-f", fl, "--min-count", str(c["minc"]), "--min-qual", str(c["minq"]),
                "--qual-filter", RULES[c["rule"]]] + ([] if c["rc"] else ["--single-strand"])
        rcode, so, se = vlib.ska_cli(args)
        if rcode != 0:
            evs = [{"ev": "reads", "ctx": c, "panic": "exit"}]
        else:
            t = vlib.parse_nk(vlib.ska_cli(["nk", "--full-info", out + ".skf"])[1].decode())
            evs = [{"ev": "reads", "ctx": c, "panic": "", "dict": [[r[0], r[1][0]] for r in t["rows"]]}]
    finally:
        shutil.rmtree(tmp, ignore_errors=True)
    run.evaluations += 1
    ok, bad, states = vlib.validate_trace("Trace_Reads", evs, "c12-replay", shards=1)
    for i in bad:
        run.fail({"kind": "trace", "event": evs[i]}, "event still rejected on re-execution")
