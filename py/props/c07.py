"""C07 - merging .skf files equals building all their samples together."""
import random, json
import vlib, skacli, tablechecks as tc
from props.c06 import rerun_episode


def run(run, tier, seed):
    run.rule = ("design: MC_Ska explores every history of <=2 (quick) / <=3 (thorough) merge/delete/weed operations from "
                "two files built from a 4-sample pool (k=5); invariant MergeIsJointBuild in both argument orders; "
                "histories containing a merge are replayed through the real CLI (table after every step + align probes). "
                "traces: 2-8 related samples partitioned into 2-4 files, random merge order and nesting, k emphasising "
                "29/31/33/35/63, plus refused merges (other k / strand mode, no output file); TLC requires the merged file "
                "to equal ONE BuildTable over all source samples in argument order. non-trivial = >=2 input files and a "
                "k-mer absent from a sample; distinct by (samples, partition, order, k)")
    run.assumptions = ["sample names are passed through a file list (name<TAB>file)", "ska nk --full-info exposes the whole table"]
    tc.design_and_replay(run, tier, seed, lambda r: any(h["op"]["do"] == "merge" for h in r["hist"]), "c07",
                         60 if tier == "quick" else 1200, focus="merge")
    rng = random.Random(seed + 7)
    sb = skacli.Sandbox("c07")
    try:
        tc.merge_episodes(run, sb, rng, tier)
        tc.merge_width_refusals(run, sb, rng)
        events = sb.events
    finally:
        sb.close()
    tc.validate(run, events, "c07", tier)


def replay(run, path):
    case = json.load(open(path))["case"]
    if case.get("kind") == "replay":
        import skahist
        v = skahist.replay_one((0, case["behaviour"]))
        run.evaluations += 1
        if not v.get("ok"):
            run.fail(case, "history still diverges: %s" % v.get("why"))
    else:
        rerun_episode(run, case, "c07r")
