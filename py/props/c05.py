"""C05 - the VCF from map carries the same information as the mapped alignment."""
import random, json
import vlib, mapdrv
from props import c04


def run(run, tier, seed):
    run.rule = ("design: MC_RefIndex - the IdxCheck iterator (absolute index -> contig, position) equals the declarative "
                "coordinate map for every 3-contig reference of its universe, including zero-length and k-mer-free contigs; "
                "replayed into the real IdxCheck. traces: every C04-style case is mapped twice with the same flags (-f aln and "
                "-f vcf), CLI and library; TLC recomputes the declarative alignment and requires: a record exactly where some "
                "sample differs from the upper-case reference base, REF = reference base (N if not A/C/G/T), every genotype "
                "decoding through REF/ALT to the aligned character ('.' for '-', N for ambiguity), contig names/order and "
                "sample order as in the inputs. non-trivial = >=1 record and >=1 position without record; distinct by (reference, table, flags)")
    run.assumptions = ["VCF text is parsed by the driver (tab-separated body, ##contig header lines)"]
    d = vlib.design_check("MC_RefIndex", "MC_RefIndex_quick" if tier == "quick" else "MC_RefIndex_thorough", "c05-idx",
                          workers=8, timeout=3000, want_replay=True)
    run.add_design(d)
    verdicts = vlib.skav_parallel("replay", d["replay"], jobs=12)
    run.replayed += len(verdicts)
    for beh, v in zip(d["replay"], verdicts):
        if not v.get("ok"):
            if "panic" not in v.get("why", ""):
                continue            # a wrong self-alignment belongs to C04's check
            run.fail({"kind": "replay", "behaviour": beh, "verdict": v, "empty_contig": any(len(c) == 0 for c in beh["contigs"])},
                     "`map -f vcf` of the reference onto itself fails for contig lengths %s: %s" % ([len(c) for c in beh["contigs"]], v.get("why")))
        elif v.get("drift"):
            run.drift += 1          # index entries / repeat loop / coordinate iterator differ from RefMap.tla with the output right
        elif any(len(c) < 5 for c in beh["contigs"]):
            run.nontriv(["idx", [len(c) for c in beh["contigs"]]])
    run.sample({"replayed_behaviour": {k: d["replay"][0][k] for k in ("kind", "contigs", "coords")}})
    events = mapdrv.run_cases(run, tier, seed + 5, "c05", with_ref_events=False)
    for e in events:
        e.pop("aln", None)          # C04's subject; the VCF is compared with the DECLARATIVE alignment
        if e.get("vcf") and 0 < len(e["vcf"]["records"]):
            run.nontriv(["vcf", e["ctx"]["contigs"], e["ctx"]["table"]["rows"], e["ctx"]["ambig_mask"], e["ctx"]["repeat_mask"]])
    c04.finish(run, events, "c05", tier)
    for e in events:
        if e.get("vcf") and e["vcf"]["records"]:
            run.sample({"vcf_records": e["vcf"]["records"][:3], "contigs": e["vcf"]["contigs"], "samples": e["vcf"]["samples"]}, limit=4)
            break


def replay(run, path):
    case = json.load(open(path))["case"]
    if case.get("kind") == "replay":
        v = vlib.skav("replay", [case["behaviour"]])[0]
        run.evaluations += 1
        if not v.get("ok") and "panic" in v.get("why", ""):
            run.fail(case, "replayed behaviour still diverges: %s" % v.get("why"))
        return
    events = c04.redo(case["event"], keep_vcf=True)
    for e in events:
        e.pop("aln", None)
    run.evaluations += 1
    ok, bad, states = vlib.validate_trace("Trace_Map", events, "c05-replay", shards=1)
    for i in bad:
        run.fail({"kind": "trace", "event": events[i]}, "event still rejected on re-execution")
