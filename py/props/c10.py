"""C10 - results depend only on the logical content of an .skf, not on its history."""
import random, json
import vlib, skacli, tablechecks as tc
from props.c06 import rerun_episode


def run(run, tier, seed):
    run.rule = ("design: MC_Ska: in every state reachable by <=2/<=3 operations the code-shaped align computation (which reads "
                "the cached count column stored in the file) equals the declarative one on the logical content, for 32 probe "
                "settings; every history (sampled) is replayed through the CLI with files really saved and reloaded between "
                "steps, followed by align probes. traces: random histories of 1-8 operations (merge, delete, weed, reverse "
                "weed, weed-filter with every filter / --filter-ambig-as-missing / --ambig-mask / min-freq) over 3-8 samples "
                "with ambiguity codes, then a probe battery (8 aligns, weed-filter, delete); TLC folds the documented effect "
                "of each operation over a plain table and requires every recorded file content and probe output to match. "
                "non-trivial = >=2 mutating operations, one with --filter-ambig-as-missing; distinct by (samples, ops)")
    run.assumptions = ["sample names are passed through a file list (name<TAB>file)", "ska nk --full-info exposes the whole table"]
    tc.design_and_replay(run, tier, seed, lambda r: True, "c10",
                         700 if tier == "quick" else 4000)
    rng = random.Random(seed + 7)
    sb = skacli.Sandbox("c10")
    try:
        tc.history_episodes(run, sb, rng, tier)
        events = sb.events
    finally:
        sb.close()
    tc.validate(run, events, "c10", tier)


def replay(run, path):
    case = json.load(open(path))["case"]
    if case.get("kind") == "replay":
        import skahist
        v = skahist.replay_one((0, case["behaviour"]))
        run.evaluations += 1
        if not v.get("ok"):
            run.fail(case, "history still diverges: %s" % v.get("why"))
    else:
        rerun_episode(run, case, "c10r")
