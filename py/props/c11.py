"""C11 - thread count and run-to-run nondeterminism never change a result."""
import os, random, json, shutil, concurrent.futures
import vlib, gen
from vlib import b


def hook_events(path):
    evs = []
    if os.path.exists(path):
        for line in open(path):
            line = line.strip()
            if line:
                evs.append(json.loads(line))
        os.remove(path)
    evs.sort(key=lambda x: x["seq"])
    return evs


def run_cmd(args, tracefile):
    if os.path.exists(tracefile):
        os.remove(tracefile)
    rc, so, se = vlib.ska_cli(args, env={"SKA_VERIF_TRACE": tracefile})
    return rc, so, se, hook_events(tracefile)


def private_samples(rng, n, k):
    """n one-record samples; sample i contains a private stretch that identifies its column."""
    core = gen.rand_seq(rng, 2 * k)
    return [[core + gen.rand_seq(rng, k + 3)] for _ in range(n)]


def norm_align(text):
    names, seqs = vlib.parse_fasta_text(text)
    n = len(seqs[0]) if seqs else 0
    return [names, sorted("".join(s[j] for s in seqs) for j in range(n))]


def replay_splits(run, tier, behs, tmp):
    """B: TLC's split behaviours against the hooked build_and_merge."""
    rng = random.Random(11)
    k = 9
    if tier == "quick":
        want_tot = {1, 2, 9, 10, 11, 19, 20, 21, 30, 39, 40, 41, 64, 69, 70, 71, 80, 149, 150, 160}
        want_thr = {1, 2, 3, 4, 8, 16}
        behs = [x for x in behs if x["total"] in want_tot and x["threads"] in want_thr]
    samples = private_samples(rng, 160, k)
    files = []
    for i, s in enumerate(samples):
        fa = os.path.join(tmp, "p%d.fa" % i)
        vlib.write_fasta(fa, s)
        files.append(fa)
    ref_tables = {}

    def one(beh):
        n, t = beh["total"], beh["threads"]
        tag = "%d_%d" % (n, t)
        fl = os.path.join(tmp, "pl%s.txt" % tag)
        open(fl, "w").write("".join("n%d\t%s\n" % (i, files[i]) for i in range(n)))
        out = os.path.join(tmp, "po%s" % tag)
        rc, so, se, hook = run_cmd(["build", "-o", out, "-k", str(k), "-f", fl, "--threads", str(t)], os.path.join(tmp, "tr%s.ndjson" % tag))
        if rc != 0:
            return {"ok": False, "why": "build failed: " + se.decode(errors="replace")[-200:]}
        sp = [h for h in hook if h["ev"] == "par.split"]
        lv = sorted([h["offset"], h["n"]] for h in hook if h["ev"] == "par.leaf")
        # the split itself is implementation-shaped (a different rule giving the same tables is not a violation): drift
        drift = len(sp) != 1 or sp[0]["depth"] != beh["depth"] or lv != sorted(beh["leaves"])
        tbl = vlib.parse_nk(vlib.ska_cli(["nk", "--full-info", out + ".skf"])[1].decode())
        os.remove(out + ".skf")
        return {"ok": True, "table": [tbl["names"], tbl["rows"]], "n": n, "drift": drift}

    with concurrent.futures.ThreadPoolExecutor(max_workers=12) as ex:
        res = list(ex.map(one, behs))
    run.replayed += len(behs)
    # same table for every thread count of the same n (compare with the smallest thread count present)
    first = {}
    for beh, r in zip(behs, res):
        if not r["ok"]:
            run.fail({"kind": "replay", "behaviour": beh, "verdict": r}, "split behaviour diverges: n=%d threads=%d: %s" %
                     (beh["total"], beh["threads"], r["why"]))
            continue
        if r.get("drift"):
            run.drift += 1
            if run.drift <= 3:
                vlib.log("MODEL DRIFT (MC_Par): split for n=%d threads=%d differs from Par!Leaves" % (beh["total"], beh["threads"]))
        if beh["total"] not in first:
            first[beh["total"]] = r["table"]
        elif first[beh["total"]] != r["table"]:
            run.fail({"kind": "replay", "behaviour": beh, "verdict": {"why": "table differs between thread counts"}},
                     "build table for n=%d differs at threads=%d" % (beh["total"], beh["threads"]))
        if beh["depth"] > 0:
            run.nontriv(["split", beh["total"], beh["threads"]])
    if behs:
        run.sample({"replayed_behaviour": behs[len(behs) // 2]})


def run(run, tier, seed):
    run.rule = ("design: MC_Par - (a) every subcommand x input kind x threads 1..16: the pool program never aborts (pinned "
                "strict re-initialisation = named deviation, refuted); (b) every (total 1..64, threads 1..16): recursive split "
                "tiles the samples, 2^depth leaves, depth rule; (c) all interleavings of leaf appends with ordered OR-joins "
                "give the serial table. (b) replayed against the hooked build_and_merge (split depth, leaf offsets, table). "
                "traces: build / align / map / distance as separate processes (fresh hash seeds) with threads 1,2,3,4,8,16, "
                "repeated, on .skf and sequence-file input, 2..40 samples; TLC checks exit status, the logged pool events "
                "against the command's program, the split, and equality with the single-threaded result (identical for map, "
                "distance; same table for build; same columns up to order for align). non-trivial = threads>1 and more than "
                "one leaf/writer; distinct by (cmd, input, threads, samples)")
    run.assumptions = ["pool events are ordered by a per-process sequence number taken under the hook's mutex",
                       "correctness of each result against the spec is decided by C01/C04/C06/C14; here equality across thread counts"]
    d = vlib.design_check("MC_Par", "MC_Par", "c11-par", workers=8, timeout=900, want_replay=True)
    run.add_design(d)
    tmp = vlib.shm_dir("c11")
    events = []
    try:
        replay_splits(run, tier, d["replay"], tmp)
        rng = random.Random(seed + 11)
        threads_list = [1, 2, 4, 16] if tier == "quick" else [1, 2, 3, 4, 8, 16]
        reps = 1 if tier == "quick" else 3
        ns_list = [2, 20, 21] if tier == "quick" else [2, 19, 20, 21, 40]
        ep = 0
        for ns in ns_list:
            k = 17                      # default k: align/map on sequence files always build with k=17
            anc = gen.rand_seq(rng, 260)
            samples = []
            for i in range(ns):
                s = list(anc)
                for p in range(len(s)):
                    if rng.random() < 0.01:
                        s[p] = rng.choice("ACGT")
                samples.append(["".join(s)])
            fas = []
            for i, s in enumerate(samples):
                fa = os.path.join(tmp, "s%d_%d.fa" % (ns, i))
                vlib.write_fasta(fa, s)
                fas.append(fa)
            ref = os.path.join(tmp, "ref%d.fa" % ns)
            vlib.write_fasta(ref, [anc[:130], anc[130:]], names=["c1", "c2"])
            skf = os.path.join(tmp, "in%d" % ns)
            fl = os.path.join(tmp, "fl%d.txt" % ns)
            open(fl, "w").write("".join("s%d_%d\t%s\n" % (ns, i, f) for i, f in enumerate(fas)))
            rc, so, se = vlib.ska_cli(["build", "-o", skf, "-k", str(k), "-f", fl])
            if rc != 0:
                raise vlib.ToolError("fixture build failed")
            skf += ".skf"
            cmds = []
            cmds.append(("build", "seqs", lambda t, o: ["build", "-o", o, "-k", str(k), "-f", fl, "--threads", str(t)], "table"))
            cmds.append(("align", "skf", lambda t, o: ["align", skf, "--threads", str(t)], "cols"))
            cmds.append(("align", "seqs", lambda t, o: ["align"] + fas + ["--threads", str(t)], "cols"))
            cmds.append(("map", "skf", lambda t, o: ["map", ref, skf, "--threads", str(t)], "bytes"))
            cmds.append(("map", "seqs", lambda t, o: ["map", ref] + fas + ["--threads", str(t)], "bytes"))
            cmds.append(("map", "skf", lambda t, o: ["map", ref, skf, "-f", "vcf", "--threads", str(t)], "bytes"))
            cmds.append(("map", "seqs", lambda t, o: ["map", ref] + fas + ["-f", "vcf", "--repeat-mask", "--threads", str(t)], "bytes"))
            cmds.append(("distance", "skf", lambda t, o: ["distance", skf, "--threads", str(t)], "bytes"))
            for (cmd, inp, mk, norm) in cmds:
                ep += 1
                base = None
                for t in threads_list:
                    for rep in range(reps if t > 1 else 1):
                        out = os.path.join(tmp, "out%d_%d_%d" % (ep, t, rep))
                        rc, so, se, hook = run_cmd(mk(t, out), os.path.join(tmp, "tr%d.ndjson" % ep))
                        if rc == 0:
                            if norm == "table":
                                tb = vlib.parse_nk(vlib.ska_cli(["nk", "--full-info", out + ".skf"])[1].decode())
                                val = [tb["names"], tb["rows"]]
                            elif norm == "cols":
                                val = norm_align(so.decode())
                            else:
                                val = so.decode()
                        else:
                            val = None
                        if t == 1:
                            base = val
                            if rc != 0:
                                raise vlib.ToolError("single-threaded %s failed: %s" % (cmd, se.decode(errors="replace")[-200:]))
                        ev = {"ev": "run", "ep": ep, "cmd": cmd, "input": inp, "threads": t, "rep": rep, "nsamples": ns, "rc": rc,
                              "hook": [{kk: h[kk] for kk in h if kk != "pid"} for h in hook],
                              "same_as_t1": val is not None and val == base, "panic": "",
                              "args": " ".join(a if len(a) < 40 else os.path.basename(a) for a in mk(t, "OUT"))[:300],
                              "err": "" if rc == 0 else se.decode(errors="replace")[-300:]}
                        events.append(ev)
                        run.evaluations += 1
                        if t > 1 and ns >= 10:
                            run.nontriv([cmd, inp, t, ns, rep, " ".join(mk(t, "OUT")[-3:])])
        # build with --proportion-reads (every second record): 32 two-record samples - enough for the split to go two levels
        # deep with 4 and more threads; the option has to reach every leaf of the recursion
        ns = 32
        anc = gen.rand_seq(rng, 300)
        flp = os.path.join(tmp, "flp.txt")
        with open(flp, "w") as f:
            for i in range(ns):
                s = list(anc)
                for p in range(len(s)):
                    if rng.random() < 0.01:
                        s[p] = rng.choice("ACGT")
                s = "".join(s)
                fa = os.path.join(tmp, "p_%d.fa" % i)
                vlib.write_fasta(fa, [s[:150], s[150:]])
                f.write("p_%d\t%s\n" % (i, fa))
        ep += 1
        base = None
        for t in threads_list:
            out = os.path.join(tmp, "pout_%d" % t)
            args = ["build", "-o", out, "-k", "17", "-f", flp, "--proportion-reads", "0.5", "--threads", str(t)]
            rc, so, se, hook = run_cmd(args, os.path.join(tmp, "trp.ndjson"))
            val = None
            if rc == 0:
                tb = vlib.parse_nk(vlib.ska_cli(["nk", "--full-info", out + ".skf"])[1].decode())
                val = [tb["names"], tb["rows"]]
            if t == 1:
                base = val
                if rc != 0:
                    raise vlib.ToolError("single-threaded build --proportion-reads failed: %s" % se.decode(errors="replace")[-200:])
            events.append({"ev": "run", "ep": ep, "cmd": "build", "input": "seqs", "threads": t, "rep": 0, "nsamples": ns, "rc": rc,
                           "hook": [{kk: h[kk] for kk in h if kk != "pid"} for h in hook],
                           "same_as_t1": val is not None and val == base, "panic": "",
                           "args": "build -k 17 -f LIST --proportion-reads 0.5 --threads %d" % t,
                           "err": "" if rc == 0 else se.decode(errors="replace")[-300:]})
            run.evaluations += 1
            if t > 1:
                run.nontriv(["build-proportion", t])
        # build from paired FASTQ with --min-count auto: the coverage model runs before the parallel build
        from props.c20 import simulate_reads
        from props.c12 import write_fastq
        for ai in range(1 if tier == "quick" else 3):
            k = [21, 15, 31][ai]
            pairs = []
            for sidx in range(2 + ai):
                reads = simulate_reads(rng, rng.randint(900, 1300), rng.randint(15, 30), 0.01, k)
                half = len(reads) // 2
                f1, f2 = os.path.join(tmp, "q%d_%d_1.fastq" % (ai, sidx)), os.path.join(tmp, "q%d_%d_2.fastq" % (ai, sidx))
                write_fastq(f1, reads[:half], ["I" * len(r) for r in reads[:half]])
                write_fastq(f2, reads[half:], ["I" * len(r) for r in reads[half:]])
                pairs.append((f1, f2))
            flq = os.path.join(tmp, "q%d.txt" % ai)
            open(flq, "w").write("".join("q%d\t%s\t%s\n" % (j, a, c_) for j, (a, c_) in enumerate(pairs)))
            ep += 1
            base = None
            for t in threads_list:
                out = os.path.join(tmp, "qout%d_%d" % (ai, t))
                args = ["build", "-o", out, "-k", str(k), "-f", flq, "--min-count", "auto", "--threads", str(t)]
                rc, so, se, hook = run_cmd(args, os.path.join(tmp, "trq.ndjson"))
                val = None
                if rc == 0:
                    tb = vlib.parse_nk(vlib.ska_cli(["nk", "--full-info", out + ".skf"])[1].decode())
                    val = [tb["names"], tb["rows"]]
                if t == 1:
                    base = val
                    if rc != 0:
                        break              # the coverage model did not converge on these reads: nothing to compare
                events.append({"ev": "run", "ep": ep, "cmd": "build", "input": "fastq-auto", "threads": t, "rep": 0, "nsamples": len(pairs),
                               "rc": rc, "hook": [{kk: h[kk] for kk in h if kk != "pid"} for h in hook],
                               "same_as_t1": val is not None and val == base, "panic": "",
                               "args": "build -k %d -f LIST --min-count auto --threads %d" % (k, t),
                               "err": "" if rc == 0 else se.decode(errors="replace")[-300:]})
                run.evaluations += 1
                if t > 1:
                    run.nontriv(["build-auto", ai, t])
        # ska lo: identical with a reference, same columns up to order and strand without; on inputs with isolated
        # SNPs and on dense ones (SNPs and indels a few bases apart, where variant groups overlap and compete)
        import derive, lodrv, skacli
        comp = {65: 84, 84: 65, 67: 71, 71: 67}
        tr = str.maketrans("ACGT", "TGCA")
        rcs = lambda x: x if x == "-" else x.translate(tr)[::-1]

        def indel_lines(text, free):
            out = []
            for line in text.splitlines():
                if line.startswith("#"):
                    continue
                f = line.split("\t")
                info = dict(x.split("=") for x in f[6].split(";") if "=" in x)
                rec = (f[3], f[4], info.get("before", ""), info.get("after", ""), tuple(f[9:]))
                if free:
                    rec = min(rec, (rcs(f[3]), rcs(f[4]), rcs(info.get("after", "")), rcs(info.get("before", "")), tuple(f[9:])))
                out.append(rec)
            return sorted(out)

        def dense_samples(ns, k):
            L = rng.randint(8 * k, 400)
            anc = gen.rand_seq(rng, L)
            evs, p = [], rng.randint(k, 2 * k)
            while p < L - 2 * k:
                evs.append((p, rng.choice(["snp", "snp", "ins", "del"]), rng.choice("ACGT"), gen.rand_seq(rng, rng.randint(1, 6)),
                            [rng.random() < 0.5 for _ in range(ns)]))
                p += rng.choice([2, 3, 5, k // 2, k, 2 * k, 3 * k])
            recs = []
            for si in range(ns):
                seq = anc
                for (q, kind, base, ins, car) in sorted(evs, reverse=True):
                    if car[si]:
                        seq = (seq[:q] + base + seq[q + 1:]) if kind == "snp" else (seq[:q] + ins + seq[q:]) if kind == "ins" else (seq[:q] + seq[q + len(ins):])
                recs.append([seq])
            return anc, recs

        def linked_samples(ns, k):
            """groups of two or three substitutions carried by the same samples, the members of a group k-2 .. k+1 (or half a
            k-mer) apart - the k-mer that starts on one of them ends on the next - and the groups 3k apart"""
            L = rng.randint(14 * k, 18 * k)
            anc = gen.rand_seq(rng, L)
            recs = [list(anc) for _ in range(ns)]
            p, gi = 2 * k, 0
            while p < L - 5 * k:
                car = [rng.random() < 0.5 for _ in range(ns)]
                if all(car) or not any(car):
                    car[0] = not car[0]
                gaps = [[k - 1], [k - 1, k - 1], [k], [k - 2], [(k - 1) // 2], [k - 1, k]][gi % 6]
                q = p
                for g in [0] + gaps:
                    q += g
                    alt = rng.choice([x for x in "ACGT" if x != anc[q]])
                    for si in range(ns):
                        if car[si]:
                            recs[si][q] = alt
                p, gi = q + 3 * k, gi + 1
            return anc, [["".join(r)] for r in recs]

        sb = skacli.Sandbox("c11lo")
        try:
            nlo = 36 if tier == "quick" else 400
            for li in range(nlo):
                k = [15, 21, 31, 17, 11][li % 5]
                ns = rng.randint(4, 8)
                dense = li % 6 != 0
                if li % 6 == 3:
                    anc, recs = linked_samples(ns, k)
                elif dense:
                    anc, recs = dense_samples(ns, k)
                else:
                    sc = derive.lo_snp_scenario(rng, k, ns, rng.randint(400, 700), rng.randint(3, 8))
                    if sc is None:
                        continue
                    anc, recs = sc["ancestor"], [[x["seq"] for x in r] for r in sc["samples"]]
                names = ["t%d_%d" % (li, i) for i in range(ns)]
                sb.reset()
                ref = os.path.join(sb.dir, "ref%d.fa" % li)
                refseq = anc
                if li % 2 == 1:
                    # a reference that repeats a stretch of itself twice more (a short duplicated element): variant groups
                    # overlapping it collect votes for three offsets, two of them with equal counts
                    a = rng.randint(0, max(0, len(anc) - (k + 40)))
                    seg = anc[a:a + k + rng.randint(10, 40)]
                    refseq = anc + gen.rand_seq(rng, 5) + seg + gen.rand_seq(rng, 7) + seg
                vlib.write_fasta(ref, [refseq], names=["anc"])
                e = sb.build("lo%d" % li, recs, names, k, True)
                if not e.get("ok"):
                    continue
                for refmode in (False, True):
                    ep += 1
                    base = None
                    # every process draws fresh hash seeds: repeat the single-threaded run too
                    for ri, t in enumerate([1, 1, 1] + [x for x in threads_list if x > 1]):
                        out = os.path.join(sb.dir, "lo_out_%d_%d_%d" % (li, refmode, ri))
                        args = ["lo", sb.path("lo%d" % li), out, "--threads", str(t)] + (["-r", ref] if refmode else [])
                        rc, so, se, hook = run_cmd(args, os.path.join(tmp, "trlo.ndjson"))
                        val = None
                        if rc == 0:
                            rd = lambda suffix: open(out + suffix).read() if os.path.exists(out + suffix) else ""
                            if refmode:
                                val = [rd("_snps.fas"), rd("_snps.vcf"), rd("_pseudo_genomes.fas"), indel_lines(rd("_indels.vcf"), False)]
                            else:
                                nm, seqs = vlib.parse_fasta_text(rd("_snps.fas"))
                                n = len(seqs[0]) if seqs else 0
                                cols = []
                                for j in range(n):
                                    c = tuple(ord(x[j]) for x in seqs)
                                    cols.append(min(c, tuple(comp.get(y, y) for y in c)))
                                val = [nm, sorted(cols), indel_lines(rd("_indels.vcf"), True)]
                        if os.environ.get("VERIF_DEBUG"):
                            vlib.log("lo li=%d dense=%s ref=%s ri=%d t=%d rc=%d val=%s" % (li, dense, refmode, ri, t, rc, hash(json.dumps(val))))
                        if ri == 0:
                            base = val
                            if rc != 0 and "no entry node" in se.decode(errors="replace"):
                                # the tool's explanatory refusal (it sees no variant in this input): nothing to compare
                                break
                        events.append({"ev": "run", "ep": ep, "cmd": "lo", "input": "skf", "threads": t, "rep": ri, "nsamples": ns, "rc": rc,
                                       "hook": [{kk: h[kk] for kk in h if kk not in ("pid", "entries")} for h in hook if h["ev"].startswith("pool")],
                                       "same_as_t1": val is not None and val == base, "panic": "", "args": " ".join(args[:1] + args[3:]),
                                       "dense": dense,
                                       "err": "" if rc == 0 else se.decode(errors="replace")[-300:]})
                        run.evaluations += 1
                        if ri > 0:
                            run.nontriv(["lo", li, refmode, t, ri])
        finally:
            sb.close()
    finally:
        shutil.rmtree(tmp, ignore_errors=True)
    ok, bad, states = vlib.validate_trace("Trace_Par", events, "c11", shards=8, timeout=1800)
    run.states += states
    run.transitions += len(events)
    run.events += ok
    run.traces_validated += ok
    run.drift += vlib.LAST_DRIFT
    run.sample([e for e in events if e["cmd"] == "map" and e["input"] == "seqs" and e["threads"] > 1][:1])
    for i in bad:
        e = events[i]
        run.fail({"kind": "trace", "event": e}, "run rejected: ska %s (input %s, %d samples) --threads %d: rc=%d same_as_t1=%s %s" %
                 (e["cmd"], e["input"], e["nsamples"], e["threads"], e["rc"], e["same_as_t1"], e["err"][-150:]))


def replay(run, path):
    return globals()["run"](run, "quick", int(os.environ.get("VERIF_SEED", "20260926")))
