"""Shared machinery for /verif/bin/check: building the harness from /repo's working tree,
running TLC (design checks, REPLAY extraction, trace validation), known-finding matching,
evidence writing and the VIOLATION / KNOWN-FINDING protocol."""
import json, os, re, subprocess, sys, time, hashlib, shutil, random, gzip, concurrent.futures

VERIF = os.path.dirname(os.path.dirname(os.path.abspath(__file__)))
SPEC = os.path.join(VERIF, "spec")
WORK = os.path.join(VERIF, "work")
TARGET = os.path.join(VERIF, "target")
SKAV = os.path.join(TARGET, "release", "skav")
SKA = os.path.join(TARGET, "release", "ska")
TLA_JAR = "/opt/veriftools/tla/tla2tools.jar"
COMMUNITY = None


LAST_DRIFT = 0
LAST_EXTRA = {}


class ToolError(Exception):
    pass


def log(*a):
    print("[verif]", *a, file=sys.stderr, flush=True)


# ---------------------------------------------------------------------------------------
# build
# ---------------------------------------------------------------------------------------
def build():
    """Rebuild skav + hooked ska from /repo's current working tree (incremental).
    Background exploration runs (`vp run --with-repo`) may set VERIF_REPO to a snapshot of the
    repository: the harness manifest is then copied with its path dependency rewritten. The
    registered commands never set it and always build from /repo."""
    t0 = time.time()
    env = dict(os.environ, CARGO_NET_OFFLINE="true")
    hdir = os.path.join(VERIF, "harness")
    alt = os.environ.get("VERIF_REPO")
    if alt and os.path.abspath(alt) != "/repo":
        hdir = os.path.join(VERIF, "work", "harness-alt")
        shutil.rmtree(hdir, ignore_errors=True)
        shutil.copytree(os.path.join(VERIF, "harness"), hdir, ignore=shutil.ignore_patterns("target"))
        mf = open(os.path.join(hdir, "Cargo.toml")).read().replace('path = "/repo"', 'path = "%s"' % os.path.abspath(alt))
        open(os.path.join(hdir, "Cargo.toml"), "w").write(mf)
        cfg = open(os.path.join(hdir, ".cargo", "config.toml")).read().replace('target-dir = "../target"', 'target-dir = "%s"' % TARGET)
        open(os.path.join(hdir, ".cargo", "config.toml"), "w").write(cfg)
    lock = os.path.join(VERIF, "harness", ".build.lock")
    import fcntl
    with open(lock, "w") as lf:
        fcntl.flock(lf, fcntl.LOCK_EX)
        p = subprocess.run(["cargo", "build", "--release", "--offline", "--quiet"],
                           cwd=hdir, env=env,
                           stdout=subprocess.PIPE, stderr=subprocess.STDOUT, text=True)
    if p.returncode != 0:
        sys.stderr.write(p.stdout[-4000:])
        raise ToolError("cargo build of the harness failed")
    log("build %.1fs" % (time.time() - t0))


# ---------------------------------------------------------------------------------------
# scratch space
# ---------------------------------------------------------------------------------------
def workdir(name):
    d = os.path.join(WORK, name)
    if os.path.exists(d):
        shutil.rmtree(d, ignore_errors=True)
    os.makedirs(d, exist_ok=True)
    return d


def shm_dir(name):
    """Scratch for many small input files; /dev/shm if available."""
    base = "/dev/shm" if os.path.isdir("/dev/shm") and os.access("/dev/shm", os.W_OK) else WORK
    d = os.path.join(base, "ska-verif-%d-%s" % (os.getpid(), name))
    if os.path.exists(d):
        shutil.rmtree(d, ignore_errors=True)
    os.makedirs(d, exist_ok=True)
    return d


# ---------------------------------------------------------------------------------------
# TLC
# ---------------------------------------------------------------------------------------
STATS_RE = re.compile(r"(\d+) states generated, (\d+) distinct states found, (\d+) states left on queue")


def run_tlc(module_rel, cfg_rel, tag, workers=4, timeout=600, env_extra=None, simulate=None, xmx="6g",
            dfs=False, coverage=False):
    """Run TLC on spec/<module_rel> with spec/<cfg_rel>. Returns dict."""
    meta = os.path.join(WORK, "tlc", tag)
    if os.path.exists(meta):
        shutil.rmtree(meta, ignore_errors=True)
    os.makedirs(meta, exist_ok=True)
    jopts = "-Xss1g -Xmx" + xmx
    if dfs:
        jopts += " -Dtlc2.tool.queue.IStateQueue=StateDeque"
    env = dict(os.environ, JAVA_TOOL_OPTIONS=jopts)
    if env_extra:
        env.update(env_extra)
    # the `tlc` wrapper carries the CommunityModules classpath; heap via JAVA_TOOL_OPTIONS
    cmd = ["timeout", str(timeout), "tlc", "-workers", str(workers), "-metadir", meta, "-cleanup",
           "-noGenerateSpecTE", "-config", cfg_rel]
    if coverage:
        cmd += ["-coverage", "1"]
    if simulate:
        cmd += ["-simulate", simulate]
    cmd += [module_rel]
    t0 = time.time()
    p = subprocess.run(cmd, cwd=SPEC, env=env, stdout=subprocess.PIPE, stderr=subprocess.STDOUT, text=True)
    out = p.stdout
    shutil.rmtree(meta, ignore_errors=True)
    gen = dist = 0
    for m in STATS_RE.finditer(out):
        gen, dist = int(m.group(1)), int(m.group(2))
    res = {
        "rc": p.returncode, "out": out, "generated": gen, "distinct": dist,
        "wall": time.time() - t0,
        "ok": p.returncode == 0 and ("No error has been found" in out or simulate is not None),
        "timeout": p.returncode == 124,
    }
    return res


def tla_lines(out, tag):
    """Extract <<"TAG", "json">> lines printed by PrintT; returns parsed JSON payloads."""
    res = []
    prefix = '<<"%s", ' % tag
    for line in out.splitlines():
        if line.startswith(prefix) and line.endswith(">>"):
            body = line[len(prefix):-2]
            if body.startswith('"'):
                # a TLA+ string literal holding escaped JSON
                try:
                    s = json.loads(body)
                    res.append(json.loads(s))
                except Exception:
                    res.append(body)
            else:
                res.append(body)
    return res


def _spec_digest(module, cfg):
    h = hashlib.sha1()
    for root in (SPEC, os.path.join(SPEC, "mc")):
        for fn in sorted(os.listdir(root)):
            if fn.endswith(".tla") and (root == SPEC or fn == module + ".tla"):
                h.update(open(os.path.join(root, fn), "rb").read())
    h.update(open(os.path.join(SPEC, "mc", cfg + ".cfg"), "rb").read())
    return h.hexdigest()


def design_check(module, cfg, tag, workers=4, timeout=900, want_replay=False, simulate=None, env_extra=None):
    """A design-level TLC run. A failure here is a machinery error (exit 2), never a VIOLATION.
    Design models do not depend on /repo, so the result of an identical (specification, config) pair
    checked less than 40 minutes ago by another check of the same sweep is reused (marked cached)."""
    cdir = os.path.join(WORK, "cache")
    os.makedirs(cdir, exist_ok=True)
    cpath = os.path.join(cdir, "%s-%s-%s.json.gz" % (module, cfg, _spec_digest(module, cfg)[:16]))
    if simulate is None and env_extra is None and os.path.exists(cpath) and time.time() - os.path.getmtime(cpath) < 2400 \
            and not os.environ.get("VERIF_NO_CACHE"):
        try:
            with gzip.open(cpath, "rt") as f:
                d = json.load(f)
            if want_replay or not d.get("replay"):
                log("design %s/%s: %d states (cached result of an identical run %.0fs ago), %d replay lines" %
                    (module, cfg, d["states"], time.time() - os.path.getmtime(cpath), len(d["replay"])))
                d["cached"] = True
                if not want_replay:
                    d["replay"] = []
                return d
        except Exception:
            pass
    r = run_tlc("mc/%s.tla" % module, "mc/%s.cfg" % cfg, tag, workers=workers, timeout=timeout,
                simulate=simulate, env_extra=env_extra)
    if r["timeout"]:
        raise ToolError("TLC timed out on design model %s/%s" % (module, cfg))
    if not r["ok"]:
        sys.stderr.write(r["out"][-3000:])
        raise ToolError("design model %s/%s: TLC reported an error (machinery problem)" % (module, cfg))
    rep = tla_lines(r["out"], "REPLAY") if want_replay else []
    log("design %s/%s: %d states (%d generated) %.1fs, %d replay lines" %
        (module, cfg, r["distinct"], r["generated"], r["wall"], len(rep)))
    res = {"module": module, "cfg": cfg, "states": r["distinct"], "transitions": r["generated"],
           "wall": r["wall"], "replay": rep}
    if simulate is None and env_extra is None and want_replay and len(r["out"]) < 150_000_000:
        try:
            with gzip.open(cpath + ".tmp", "wt") as f:
                json.dump(res, f)
            os.replace(cpath + ".tmp", cpath)
        except Exception:
            pass
    return res


def apalache_inductive(module, inv="IndInv", cinit="ConstInit", timeout=900):
    """Unbounded design-level argument: Apalache discharges Init => inv and inv /\\ Next => inv' for spec/apalache/<module>.tla.
    Concerns the specification only (never /repo): a counterexample is a machinery error (exit 2); when Apalache is missing
    or does not finish, the step is recorded as not run and nothing else changes."""
    import shutil as _sh
    res = {"module": "apalache/" + module, "inv": inv, "base": "not run", "step": "not run", "wall": 0.0}
    exe = _sh.which("apalache-mc")
    if not exe:
        return res
    out = os.path.join(WORK, "apalache", module)
    os.makedirs(out, exist_ok=True)
    t0 = time.time()
    for name, extra in (("base", ["--init=Init", "--length=0"]), ("step", ["--init=IndInit", "--length=1"])):
        try:
            p = subprocess.run([exe, "check", "--cinit=" + cinit, "--inv=" + inv, "--out-dir=" + out] + extra + [module + ".tla"],
                               cwd=os.path.join(VERIF, "spec", "apalache"), stdout=subprocess.PIPE, stderr=subprocess.STDOUT,
                               text=True, timeout=timeout)
        except subprocess.TimeoutExpired:
            res[name] = "timeout"
            break
        if "The outcome is: NoError" in p.stdout:
            res[name] = "proved"
        elif "The outcome is: Error" in p.stdout:
            sys.stderr.write(p.stdout[-2000:])
            raise ToolError("apalache/%s: %s is not inductive (%s case) - specification problem" % (module, inv, name))
        else:
            res[name] = "tool failure"
            break
    res["wall"] = round(time.time() - t0, 1)
    shutil.rmtree(out, ignore_errors=True)
    log("apalache %s: %s base=%s step=%s %.1fs" % (module, inv, res["base"], res["step"], res["wall"]))
    return res


# ---------------------------------------------------------------------------------------
# harness invocations
# ---------------------------------------------------------------------------------------
def skav(mode, lines, args=(), timeout=1800):
    data = "\n".join(json.dumps(x, separators=(",", ":")) for x in lines) + "\n"
    p = subprocess.run([SKAV, mode] + list(args), input=data, stdout=subprocess.PIPE, stderr=subprocess.PIPE,
                       text=True, timeout=timeout)
    if p.returncode != 0:
        raise ToolError("skav %s failed: %s" % (mode, p.stderr[-2000:]))
    return [json.loads(l) for l in p.stdout.splitlines() if l.strip()]


def skav_parallel(mode, lines, jobs=8):
    if len(lines) < 64 or jobs <= 1:
        return skav(mode, lines)
    chunk = (len(lines) + jobs - 1) // jobs
    parts = [lines[i:i + chunk] for i in range(0, len(lines), chunk)]
    with concurrent.futures.ThreadPoolExecutor(max_workers=jobs) as ex:
        outs = list(ex.map(lambda part: skav(mode, part), parts))
    return [x for o in outs for x in o]


def ska_cli(args, cwd=None, timeout=600, env=None):
    """Run the hooked ska binary. Returns (rc, stdout, stderr)."""
    e = dict(os.environ)
    if env:
        e.update(env)
    try:
        p = subprocess.run([SKA] + list(args), cwd=cwd, stdout=subprocess.PIPE, stderr=subprocess.PIPE,
                           timeout=timeout, env=e)
    except subprocess.TimeoutExpired:
        return (124, b"", b"timeout")
    return (p.returncode, p.stdout, p.stderr)


# ---------------------------------------------------------------------------------------
# trace validation
# ---------------------------------------------------------------------------------------
def validate_trace(trace_module, events, tag, shards=1, timeout=900, cfg=None):
    """Validate events (list of dicts) with spec/trace/<trace_module>.tla.
    Returns (n_accepted_events, bad_indices (0-based into events), tlc_states).
    Every event is one step of the trace spec; rejected events are recorded by the trace
    spec itself (variable `bad`) so the remainder of the trace is still checked."""
    if not events:
        return 0, [], 0
    shards = max(1, min(shards, len(events)))
    d = os.path.join(WORK, "traces", tag)
    os.makedirs(d, exist_ok=True)
    # contiguous shards that only split at episode boundaries (ev == "reset" starts an episode)
    bounds = [0]
    per = (len(events) + shards - 1) // shards
    i = per
    while i < len(events):
        j = i
        while j < len(events) and events[j].get("ev") != "reset" and events[j].get("stateful"):
            j += 1
        bounds.append(j)
        i = j + per
    bounds.append(len(events))
    bounds = sorted(set(bounds))
    jobs = []
    for si in range(len(bounds) - 1):
        part = events[bounds[si]:bounds[si + 1]]
        if not part:
            continue
        path = os.path.join(d, "shard%d.ndjson" % si)
        with open(path, "w") as f:
            for e in part:
                f.write(json.dumps(e, separators=(",", ":")) + "\n")
        jobs.append((si, bounds[si], path, len(part)))

    def one(job):
        si, off, path, n = job
        r = run_tlc("trace/%s.tla" % trace_module, "trace/%s.cfg" % (cfg or trace_module), "%s-s%d" % (tag, si),
                    workers=1, timeout=timeout, env_extra={"TRACE": path}, dfs=True, xmx="4g")
        return (job, r)

    bad, states = [], 0
    global LAST_DRIFT
    LAST_DRIFT = 0
    LAST_EXTRA.clear()
    with concurrent.futures.ThreadPoolExecutor(max_workers=min(16, len(jobs))) as ex:
        for (si, off, path, n), r in ex.map(one, jobs):
            if r["timeout"]:
                raise ToolError("trace validation timed out (%s shard %d)" % (trace_module, si))
            ends = tla_lines(r["out"], "TRACE-END")
            if not ends:
                sys.stderr.write(r["out"][-4000:])
                raise ToolError("trace spec %s did not reach the end of shard %d (TLC error)" % (trace_module, si))
            body = ends[-1]
            if not isinstance(body, dict) or body.get("n") != n:
                raise ToolError("trace spec %s consumed %s of %d events" % (trace_module, body, n))
            idxs = body.get("bad", [])
            LAST_DRIFT += body.get("drift", 0)
            for key in ("extras", "seen", "planted", "reported", "plantedT", "reportedT"):
                if key in body:
                    LAST_EXTRA[key] = LAST_EXTRA.get(key, 0) + body[key]
            bad += [off + x - 1 for x in idxs]
            states += r["distinct"]
    return len(events) - len(bad), sorted(bad), states


# ---------------------------------------------------------------------------------------
# findings
# ---------------------------------------------------------------------------------------
def load_known():
    p = os.path.join(VERIF, "known_findings.json")
    if not os.path.exists(p):
        return []
    return json.load(open(p)).get("findings", [])


def match_known(prop, case):
    """case: dict describing the failing case; a known finding matches when every key of its
    `signature` equals the case's value (dotted paths allowed)."""
    def get(d, path):
        for part in path.split("."):
            if isinstance(d, dict) and part in d:
                d = d[part]
            else:
                return None
        return d
    for f in load_known():
        if f.get("status") != "known" or f.get("property") != prop:
            continue
        sig = f.get("signature", {})
        if sig and all(get(case, k) == v for k, v in sig.items()):
            return f
    return None


class Run:
    """Accumulates what one check run covered and its verdict."""

    def __init__(self, prop, tier, seed):
        self.prop, self.tier, self.seed = prop, tier, seed
        self.t0 = time.time()
        self.states = 0
        self.transitions = 0
        self.traces_validated = 0
        self.evaluations = 0
        self.nontrivial = set()
        self.nontriv_n = 0         # cases counted as distinct non-trivial by construction (e.g. enumerated faults)
        self.samples = []
        self.violations = []       # (replay_path, summary)
        self.known_hits = {}       # finding id -> count
        self.notes = []
        self.design = []
        self.replayed = 0
        self.events = 0
        self.exhaustive = False
        self.rule = ""
        self.assumptions = []
        self.drift = 0
        self.extra = {}

    def add_design(self, d):
        self.states += d["states"]
        self.transitions += d["transitions"]
        self.design.append({k: d[k] for k in ("module", "cfg", "states", "transitions", "wall", "cached") if k in d})

    def nontriv(self, key):
        self.nontrivial.add(hashlib.sha1(json.dumps(key, sort_keys=True, separators=(",", ":")).encode()).hexdigest())

    def sample(self, obj, limit=4):
        if len(self.samples) < limit:
            s = json.dumps(obj)
            if len(s) > 3000:
                s = s[:3000] + "...(truncated)"
                self.samples.append(s)
            else:
                self.samples.append(obj)

    def fail(self, case, summary):
        """Record a failing case (dict). Known findings are reported, anything else is a violation."""
        f = match_known(self.prop, case)
        if f is not None:
            self.known_hits[f["id"]] = self.known_hits.get(f["id"], 0) + 1
            return
        d = os.path.join(WORK, "replay")
        os.makedirs(d, exist_ok=True)
        path = os.path.join(d, "%s-%d.json" % (self.prop, min(len(self.violations) + 1, 50)))
        if len(self.violations) < 50:
            with open(path, "w") as fh:
                json.dump({"property": self.prop, "summary": summary, "case": case}, fh)
        self.violations.append((path, summary))

    def finish(self):
        wall = time.time() - self.t0
        ev = {
            "property_id": self.prop, "tier": self.tier, "seed": self.seed, "level": "model_checking",
            "coverage": {
                "states": max(self.states, 0), "transitions": max(self.transitions, 0),
                "traces_validated_against_impl": self.traces_validated,
                "samples": self.samples if self.samples else ["(no sample recorded)"],
                "evaluations": self.evaluations + self.replayed, "distinct_nontrivial": len(self.nontrivial) + self.nontriv_n,
                "rule": self.rule, "exhaustive": self.exhaustive,
                "design_models": self.design, "behaviours_replayed_into_impl": self.replayed,
                "trace_events_validated": self.events, "model_drift_warnings": self.drift,
                "known_findings_hit": self.known_hits,
            },
            "assumptions": self.assumptions, "wall_s": round(wall, 2), "violations": len(self.violations),
        }
        ev["coverage"].update(self.extra)
        if self.notes:
            ev["coverage"]["notes"] = self.notes
        # VERIF_EVIDENCE_DIR: where to write (seedtest / benigntest / regress run on a CHANGED tree and must not
        # overwrite the evidence of the unchanged one)
        edir = os.environ.get("VERIF_EVIDENCE_DIR") or os.path.join(VERIF, "evidence")
        os.makedirs(edir, exist_ok=True)
        with open(os.path.join(edir, "%s.json" % self.prop), "w") as f:
            json.dump(ev, f, indent=1)
        for fid, n in self.known_hits.items():
            f = [x for x in load_known() if x["id"] == fid][0]
            print("KNOWN-FINDING: property=%s %s (%d case(s) this run)" % (self.prop, f["what"], n))
        if len(self.violations) > 10:
            log("%d violations; first 10 shown" % len(self.violations))
        for path, summary in self.violations[:10]:
            print("VIOLATION property=%s replay=%s" % (self.prop, path))
            log("  " + summary)
        sys.stdout.flush()
        return 1 if self.violations else 0


# ---------------------------------------------------------------------------------------
# small helpers shared by drivers
# ---------------------------------------------------------------------------------------
DIG = {"A": 0, "C": 1, "T": 2, "G": 3}
LET = "ACTG"
COMP = {"A": "T", "C": "G", "G": "C", "T": "A", "a": "t", "c": "g", "g": "c", "t": "a", "N": "N", "n": "n"}


def revcomp(s):
    return "".join(COMP.get(c, c) for c in reversed(s))


def b(s):
    """string -> list of byte values"""
    return list(s.encode())


def digits(s):
    return [DIG[c] for c in s.upper()]


def write_fasta(path, recs, names=None, wrap=None, gz=False, crlf=False):
    """recs: list of str. crlf: DOS line ends (files that went through a Windows editor)."""
    out = []
    for i, r in enumerate(recs):
        out.append(">%s" % (names[i] if names else "r%d" % i))
        if wrap:
            for j in range(0, max(len(r), 1), wrap):
                out.append(r[j:j + wrap])
        else:
            out.append(r)
    data = (("\r\n" if crlf else "\n").join(out) + ("\r\n" if crlf else "\n")).encode()
    if gz == "multi":
        # several gzip members one after the other (what `cat a.gz b.gz` or block-gzip tools produce); cut anywhere
        cuts = sorted({len(data) // 3, (2 * len(data)) // 3, min(len(data), 7)})
        with open(path, "wb") as f:
            a = 0
            for c in cuts + [len(data)]:
                f.write(gzip.compress(data[a:c]))
                a = c
    elif gz:
        with gzip.open(path, "wb") as f:
            f.write(data)
    else:
        with open(path, "wb") as f:
            f.write(data)


def parse_nk(text):
    """Parse `ska nk --full-info` stdout into a table projection."""
    hdr, rows = {}, []
    for line in text.splitlines():
        if not line.strip():
            continue
        if "\t" in line:
            u, l, bases = line.split("\t")
            rows.append([digits(u + l), [ord(x) for x in bases.split(",")]])
        elif "=" in line:
            k, v = line.split("=", 1)
            hdr[k] = v
    names = json.loads(hdr.get("sample_names", "[]").replace("'", '"')) if "sample_names" in hdr else []
    rows.sort()
    return {"k": int(hdr.get("k", 0)), "rc": hdr.get("rc") == "true", "names": names, "rows": rows,
            "nsk": json.loads(hdr.get("sample_kmers", "[]")), "ksize": int(hdr.get("k-mers", -1)),
            "k_bits": int(hdr.get("k_bits", 0))}


def parse_fasta_text(text):
    names, seqs = [], []
    for line in text.splitlines():
        if line.startswith(">"):
            names.append(line[1:])
            seqs.append("")
        elif names:
            seqs[-1] += line.strip()
    return names, seqs
