"""Scenario generation for samples DERIVED from a common ancestor (C03, C17, C18) and the
driver-side evaluation of the preconditions (the trace specification re-evaluates them)."""
import random
import vlib, gen
from vlib import b, revcomp

ORDER = "ACTG"


def canon_arms(win):
    k = len(win)
    h = (k - 1) // 2
    a = win[:h] + win[h + 1:]
    r = revcomp(win)
    ra = r[:h] + r[h + 1:]
    key = lambda x: [ORDER.index(c) for c in x]
    if key(ra) < key(a):
        return ra, True, ra == a
    return a, False, ra == a


def windows_kp(samples, k):
    """set of (arms, ancestor position, ancestor strand) over all windows of all samples; any palindrome"""
    kp, pal = set(), False
    h = (k - 1) // 2
    for recs in samples:
        for r in recs:
            s, off, rev = r["seq"], r["off"], r["rev"]
            for i in range(len(s) - k + 1):
                w = s[i:i + k]
                if any(c not in "ACGT" for c in w):
                    continue
                arms, isrc, p = canon_arms(w)
                pal = pal or p
                pos = i + h
                apos = off + len(s) - 1 - pos if rev else off + pos
                kp.add((arms, apos, isrc != rev))
    return kp, pal


def unique_per_position(samples, k):
    kp, pal = windows_kp(samples, k)
    return (not pal) and len({x[0] for x in kp}) == len(kp)


def isolated(sites, samples, h):
    for i, p in enumerate(sites):
        for j, q in enumerate(sites):
            if i != j and abs(p - q) <= h:
                return False
        for recs in samples:
            if not any(p - r["off"] >= h and (r["off"] + len(r["seq"]) - 1) - p >= h for r in recs):
                return False
    return True


def derive(rng, ancestor, sites, alleles, ns, split_prob=0.3, rev_prob=0.5, k=5, tight=False):
    """records of each sample: the derived genome, optionally split into two contigs, each forward or RC"""
    samples = []
    for s in range(ns):
        g = list(ancestor)
        for i, p in enumerate(sites):
            g[p] = alleles[i][s]
        g = "".join(g)
        pieces = [(0, len(g))]
        h = (k - 1) // 2
        if tight and sites and rng.random() < 0.5:
            # a contig of length exactly k with a site at its centre (the site is still (k-1)/2 from both ends)
            p = rng.choice(sites)
            if p - h >= 0 and p + h + 1 <= len(g) and all(q == p or abs(q - p) > k + h for q in sites):
                pieces = [(0, p - h), (p - h, p + h + 1), (p + h + 1, len(g))]
                pieces = [x for x in pieces if x[1] > x[0]]
        elif rng.random() < split_prob and len(g) > 4 * k:
            cut = rng.randint(2 * k, len(g) - 2 * k)
            pieces = [(0, cut), (cut, len(g))]
        recs = []
        for (a, z) in pieces:
            seq = g[a:z]
            rev = rng.random() < rev_prob
            recs.append({"seq": revcomp(seq) if rev else seq, "off": a, "rev": rev})
        rng.shuffle(recs)
        samples.append(recs)
    return samples


def snp_scenario(rng, k, ns, length, nsites, min_gap=None, tries=200, split_prob=0.3, private=False):
    """ancestor + isolated sites + alleles + derived samples; returns dict or None"""
    h = (k - 1) // 2
    gap = min_gap if min_gap is not None else h + 1
    for _ in range(tries):
        anc = gen.rand_seq(rng, length)
        lo, hi = h, length - 1 - h
        if hi - lo < 1:
            return None
        sites = []
        for _ in range(nsites * 20):
            p = rng.randint(lo, hi)
            if all(abs(p - q) >= gap for q in sites):
                sites.append(p)
            if len(sites) == nsites:
                break
        sites.sort()
        if not sites:
            continue
        alleles = []
        for si, p in enumerate(sites):
            alts = [x for x in "ACGT" if x != anc[p]]
            col = [anc[p]] * ns
            if private:
                col[si % ns] = rng.choice(alts)          # a substitution private to one sample: every row of the output is distinct
                alleles.append(col)
                continue
            nal = rng.choice([1, 1, 1, 2])
            for a in rng.sample(alts, nal):
                for s in rng.sample(range(ns), rng.randint(1, max(1, ns // 2))):
                    col[s] = a
            if len(set(col)) < 2:
                col[rng.randrange(ns)] = alts[0]
            alleles.append(col)
        samples = derive(rng, anc, sites, alleles, ns, split_prob=split_prob, k=k, tight=True)
        whole = [[{"seq": anc, "off": 0, "rev": False}]]
        if not unique_per_position(whole, k):
            continue          # literal precondition: the ANCESTOR's split k-mers unique on both strands
        return {"ancestor": anc, "sites": sites, "alleles": alleles, "samples": samples, "k": k,
                "pre_literal": True,
                "pre_strict": unique_per_position(samples, k) and isolated(sites, samples, h)}
    return None


def ctx_of(sc, names):
    return {"k": sc["k"], "names": names, "ancestor": b(sc["ancestor"]), "sites": sc["sites"],
            "alleles": [[ord(x) for x in col] for col in sc["alleles"]],
            "samples": [[{"seq": b(r["seq"]), "off": r["off"], "rev": r["rev"]} for r in recs] for recs in sc["samples"]],
            "pre_strict": sc["pre_strict"], "pre_literal": sc["pre_literal"]}


# ---- ska lo scenarios (C17, C18) ---------------------------------------------------------------
def mers_unique_per_position(samples, n):
    """contiguous n-mers unique per (ancestor position, strand) over all samples; none self-RC"""
    seen = {}
    key = lambda x: [ORDER.index(c) for c in x]
    for recs in samples:
        for r in recs:
            s, off, rev = r["seq"], r["off"], r["rev"]
            for i in range(len(s) - n + 1):
                w = s[i:i + n]
                if any(c not in "ACGT" for c in w):
                    continue
                rcw = revcomp(w)
                if rcw == w:
                    return False
                flip = key(rcw) < key(w)
                can = rcw if flip else w
                apos = off + len(s) - i - n if rev else off + i
                val = (apos, flip != rev)
                if seen.setdefault(can, val) != val:
                    return False
    return True


def spaced(sites, samples, gap, margin):
    for i, p in enumerate(sites):
        for j, q in enumerate(sites):
            if i != j and abs(p - q) < gap:
                return False
        for recs in samples:
            if not any(p - r["off"] >= margin and (r["off"] + len(r["seq"]) - 1) - p >= margin for r in recs):
                return False
    return True


def lo_snp_scenario(rng, k, ns, length, nsites, tries=100, amb=False):
    """amb: the pair of (k-1)/2-base flanks around a position next to the first site occurs one to three more times in the
    ancestor with other middle bases (every (k-1)-mer stays unique): that split k-mer carries an ambiguity code of two,
    three or four bases in every sample."""
    for _ in range(tries):
        anc = gen.rand_seq(rng, length)
        sites, lo, hi = [], k, length - 1 - k
        for _ in range(nsites * 30):
            p = rng.randint(lo, hi)
            if all(abs(p - q) >= 2 * k for q in sites):
                sites.append(p)
            if len(sites) == nsites:
                break
        sites.sort()
        if not sites:
            continue
        if amb:
            h = (k - 1) // 2
            p = rng.choice(sites)
            q = p + rng.choice([-1, 1]) * rng.randint(1, h)
            if q - h < 0 or q + h + 1 > length:
                continue
            others = [x for x in "ACGT" if x != anc[q]]
            rng.shuffle(others)
            nother = rng.choice([1, 2, 2, 2, 3])
            if nother == 2 and isinstance(amb, int) and not isinstance(amb, bool):
                # the three-base codes in turn (amb = 1..4 names the base left out: B, V, H, D)
                out = "ACGT"[(amb - 1) % 4]
                if anc[q] == out:
                    continue
                others = [x for x in others if x != out] + [out]
            spots, ok = [], True
            for x in others[:nother]:
                for _t in range(60):
                    a = rng.randint(0, length - k)
                    if all(abs(a + h - z) >= 2 * k + 2 for z in sites) and all(abs(a - z) >= 2 * k for z in spots) and abs(a + h - q) >= 2 * k:
                        break
                else:
                    ok = False
                    break
                spots.append(a)
                anc = anc[:a] + anc[q - h:q] + x + anc[q + 1:q + h + 1] + anc[a + k:]
            if not ok:
                continue
        if not mers_unique_per_position([[{"seq": anc, "off": 0, "rev": False}]], k - 1):
            continue
        alleles = []
        for p in sites:
            alts = [x for x in "ACGT" if x != anc[p]]
            col = [anc[p]] * ns
            for a in rng.sample(alts, rng.choice([1, 1, 1, 2])):
                for s in rng.sample(range(ns), rng.randint(1, max(1, ns // 2))):
                    col[s] = a
            if len(set(col)) < 2:
                col[rng.randrange(ns)] = alts[0]
            alleles.append(col)
        samples = derive(rng, anc, sites, alleles, ns, split_prob=0.0, k=k)
        return {"ancestor": anc, "sites": sites, "alleles": alleles, "samples": samples, "k": k, "pre_literal": True,
                "pre_strict": mers_unique_per_position(samples, k - 1) and spaced(sites, samples, 2 * k, k)}
    return None


def lo_indel_scenario(rng, k, ns, length, nind, tries=100, tandem=False, fixed_len=None, twins=False):
    """ancestor + planted insertions/deletions (length 1..10 < k, >= 4k apart and from the ends), carrier sets"""
    for _ in range(tries):
        anc = gen.rand_seq(rng, length)
        if not mers_unique_per_position([[{"seq": anc, "off": 0, "rev": False}]], k - 1):
            continue
        pos, lo, hi = [], 4 * k, length - 4 * k
        if hi <= lo:
            return None
        for _ in range(nind * 30):
            p = rng.randint(lo, hi)
            if all(abs(p - q) >= 4 * k + 10 for q in pos):
                pos.append(p)
            if len(pos) == nind:
                break
        pos.sort()
        if not pos:
            continue
        inds = []
        for p in pos:
            ln = fixed_len or rng.randint(1, min(10, k - 1))
            kind = rng.choice(["ins", "del"])
            carriers = set(rng.sample(range(ns), rng.randint(1, ns - 1)))
            if tandem:
                # the inserted bases copy the bases just before the insertion point (run extension /
                # tandem duplication), or one copy of such a unit is deleted: placement is ambiguous
                ln = rng.choice([1, 1, 2, 3])
            if kind == "ins":
                seq = anc[p - ln:p] if tandem else gen.rand_seq(rng, ln)
                long = carriers                     # carriers have the extra bases
            else:
                seq = anc[p:p + ln]
                long = set(range(ns)) - carriers    # carriers lack them
            if twins and inds and not tandem:
                # the same bases inserted (or deleted: the ancestor gets them at this place too) in the same samples as
                # the first indel - two different indels whose alleles and genotypes read alike
                f = inds[0]
                ln, kind, seq, carriers, long = f["len"], f["kind"], f["seq"], set(f["carriers"]), set(f["long"])
                if kind == "del":
                    anc = anc[:p] + seq + anc[p + ln:]
            inds.append({"pos": p, "len": ln, "kind": kind, "seq": seq, "carriers": sorted(carriers), "long": sorted(long)})
        if twins and not mers_unique_per_position([[{"seq": anc, "off": 0, "rev": False}]], k - 1):
            continue
        samples = []
        for s in range(ns):
            g, shift = anc, 0
            for ind in inds:
                if s in ind["carriers"]:
                    p = ind["pos"] + shift
                    if ind["kind"] == "ins":
                        g = g[:p] + ind["seq"] + g[p:]
                        shift += ind["len"]
                    else:
                        g = g[:p] + g[p + ind["len"]:]
                        shift -= ind["len"]
            rev = rng.random() < 0.5
            samples.append([{"seq": revcomp(g) if rev else g, "off": 0, "rev": rev}])
        # uniqueness is positional only up to the indel shifts: evaluate it on each sample alone plus
        # pairwise through canonical k-1-mers shared at inconsistent "neighbourhoods" is too strict to express
        # with shifted coordinates, so require: every sample on its own has unique (k-1)-mers on both strands
        ok = all(mers_unique_per_position([[{"seq": r["seq"], "off": 0, "rev": False}] for r in recs][:1], k - 1) for recs in samples)
        return {"ancestor": anc, "planted": inds, "samples": samples, "k": k, "pre_strict": ok, "stratum": "tandem" if tandem else "generic"}
    return None
