"""Driver for `ska lo` (C17, C18): builds scenarios, runs the CLI, parses its output files."""
import os, random, json, shutil
import vlib, gen, skacli, derive, mapdrv
from vlib import b


def _by_name(text, names):
    """Genotype columns belong to the sample named in the #CHROM header line: returns a function that puts a record's
    genotype fields into the order of `names` (the order the samples were given in). A header that does not name exactly
    these samples leaves the columns as written (and the record count / relation checks then speak)."""
    header = None
    for line in text.splitlines():
        if line.startswith("#CHROM"):
            header = line.split("\t")[9:]
    if names is None or header is None or sorted(header) != sorted(names) or len(set(header)) != len(header):
        return lambda g: g
    idx = [header.index(n) for n in names]
    return lambda g: [g[i] for i in idx] if len(g) == len(idx) else g


def parse_lo_vcf(text, names=None):
    recs = []
    order = _by_name(text, names)
    for line in text.splitlines():
        if not line or line.startswith("#"):
            continue
        f = line.split("\t")
        recs.append({"pos": int(f[1]), "ref": ord(f[3]), "alts": [ord(x) for x in f[4].split(",") if x and x != "."],
                     "gts": [(-1 if g == "." else int(g)) for g in order(f[9:])]})
    return recs


def parse_indel_vcf(text, names=None):
    recs = []
    order = _by_name(text, names)
    for line in text.splitlines():
        if not line or line.startswith("#"):
            continue
        f = line.split("\t")
        info = dict(x.split("=", 1) for x in f[6].split(";") if "=" in x)
        al = lambda x: [] if x == "-" else b(x)
        recs.append({"ref": al(f[3]), "alt": al(f[4]), "before": b(info.get("before", "")), "after": b(info.get("after", "")),
                     "gts": order(f[9:])})
    return recs


def run_lo(sb, samples_recs, names, k, out_tag, threads=1, missing=None, ref=None, depth=None):
    """samples_recs: list of list of str. Returns dict(rc, snps:(names, seqs), vcf, pseudo, indels, err)."""
    e = sb.build("lo_" + out_tag, samples_recs, names, k, True)
    if not e.get("ok"):
        return {"rc": 1, "err": "build failed: " + e.get("err", "")}
    out = os.path.join(sb.dir, "ep%d_%s" % (sb.ep, out_tag))
    args = ["lo", sb.path("lo_" + out_tag), out, "--threads", str(threads)]
    if missing is not None:
        args += ["-m", str(missing)]
    if ref is not None:
        args += ["-r", ref]
    rc, so, se = vlib.ska_cli(args, timeout=300)
    res = {"rc": rc, "err": se.decode(errors="replace")[-300:] if rc else ""}
    if rc != 0:
        return res
    rd = lambda suffix: open(out + suffix).read() if os.path.exists(out + suffix) else None
    fas = rd("_snps.fas")
    res["snps"] = vlib.parse_fasta_text(fas) if fas is not None else ([], [])
    res["vcf"] = parse_lo_vcf(rd("_snps.vcf") or "", names)
    pg = rd("_pseudo_genomes.fas")
    res["pseudo"] = vlib.parse_fasta_text(pg) if pg is not None else ([], [])
    res["indels"] = parse_indel_vcf(rd("_indels.vcf") or "", names)
    return res


def ctx_samples(samples):
    return [[{"seq": b(r["seq"]), "off": r["off"], "rev": r["rev"]} for r in recs] for recs in samples]


def snp_events(run, tier, seed, tag, ks=None, n=None):
    """ks / n given: only the planted-SNP stratum, at those k (used by C09 for the 128-bit widths)."""
    rng = random.Random(seed)
    only_planted = ks is not None
    ks = ks or [7, 9, 11, 13, 15, 17, 21, 25, 29, 31, 33]          # C17 is stated for k in 7..33
    n = n or (26 if tier == "quick" else 300)
    sb = skacli.Sandbox(tag)
    events = []
    try:
        for ci in range(n):
            k = rng.choice(ks)
            refmode = k >= 15 and ci % 2 == 0
            ns = rng.randint(3, 10)
            lo_len = max(120, 8 * k)
            length = rng.randint(lo_len, max(lo_len + 40, 500 if tier == "quick" else 1500)) if k >= 9 else rng.randint(60, 110)
            # every third scenario: a flank pair next to a site occurs two to four times with different middle bases (an
            # ambiguity code of 2, 3 or 4 bases at that split k-mer in every sample) - still inside the stated precondition
            amb = (ci % 3 == 1) and k >= 9
            sc = derive.lo_snp_scenario(rng, k, ns, max(length, 12 * k) if amb else length, rng.randint(1, 4) if amb else rng.randint(1, 10), amb=(1 + (ci // 3) % 4) if amb else False)
            if sc is None:
                continue
            names = ["l%d_%d" % (ci, (7 * i + 3) % 11) for i in range(ns)]      # input order is not the alphabetical order
            sb.reset()
            ref = None
            if refmode:
                ref = os.path.join(sb.dir, "ref%d.fa" % ci)
                # every second reference is wrapped (lines of 60, 70 or 37 bases), every fourth of those with DOS line ends
                vlib.write_fasta(ref, [sc["ancestor"]], names=["anc"], wrap=[60, 70, 37][ci % 3] if ci % 4 == 0 else None,
                                 crlf=(ci % 8 == 0))
            threads = rng.choice([1, 2, 3, 4, 8])
            missing = rng.choice([None, 0.0, 0.1, 0.4])
            r = run_lo(sb, [[x["seq"] for x in recs] for recs in sc["samples"]], names, k, "s%d" % ci, threads=threads,
                       missing=missing, ref=ref)
            mnum = 100 if missing is None else int(round(missing * 1000))
            ctx = {"k": k, "names": names, "ancestor": b(sc["ancestor"]), "sites": sc["sites"],
                   "alleles": [[ord(x) for x in col] for col in sc["alleles"]], "samples": ctx_samples(sc["samples"]),
                   "pre_strict": sc["pre_strict"], "pre_literal": True, "refmode": refmode, "threads": threads,
                   "missing": [mnum, 1000]}
            ev = {"ev": "lo.snps", "id": ci, "ctx": ctx, "panic": "" if r["rc"] == 0 else (r["err"] or "exit")}
            if r["rc"] == 0:
                ev["names"], seqs = r["snps"]
                ev["seqs"] = [b(s) for s in (seqs if seqs else ["" for _ in names])]
                if not ev["names"]:
                    ev["names"] = names if not seqs else ev["names"]
                ev["vcf"] = r["vcf"]
                ev["pseudo"] = [b(s) for s in r["pseudo"][1]]
            events.append(ev)
            run.evaluations += 1
            if sc["pre_strict"]:
                run.nontriv([sc["ancestor"], sc["sites"], sc["alleles"], k, refmode])
        # arbitrary inputs (close SNPs, indels, repeats): only well-formedness is required
        for ci in range(0 if only_planted else (8 if tier == "quick" else 80)):
            k = rng.choice([7, 11, 15, 21, 31])
            ns = rng.randint(3, 8)
            samples = gen.related_samples(rng, k, ns, length=rng.randint(6 * k, 400), snp_rate=0.03)
            names = ["y%d_%d" % (ci, i) for i in range(ns)]
            sb.reset()
            missing = rng.choice([0.0, 0.1, 0.4])
            r = run_lo(sb, samples, names, k, "a%d" % ci, threads=rng.choice([1, 2, 4]), missing=missing)
            if r.get("err", "").startswith("build failed"):
                continue            # a generated sample without any valid window: `ska build` refuses, nothing to observe
            # a graph without any entry node (no variant at all) makes the tool exit with an explanatory error:
            # that is a refusal, not a malformed result
            refused = r["rc"] != 0 and "no entry node" in r.get("err", "")
            ev = {"ev": "lo.any", "id": 1000 + ci, "ctx": {"k": k, "missing": [int(round(missing * 1000)), 1000]},
                  "refused": refused, "panic": "" if (r["rc"] == 0 or refused) else (r["err"] or "exit")}
            ev["seqs"] = [b(s) for s in r["snps"][1]] if r["rc"] == 0 else []
            if r["rc"] != 0:
                ev["samples"] = samples
            events.append(ev)
            run.evaluations += 1
        # mixed samples: isolated SNPs, but some samples also carry a second copy of the region around a site with
        # another allele (a duplicated region, a contaminated assembly): they are ambiguous ('N') at that site, and
        # the column is allowed only if the ambiguous + absent samples stay within -m. Well-formedness only.
        for ci in range(0 if only_planted else (10 if tier == "quick" else 100)):
            k = rng.choice([11, 15, 21, 31])
            ns = rng.randint(4, 10)
            sc = derive.lo_snp_scenario(rng, k, ns, rng.randint(8 * k, 500), rng.randint(1, 4))
            if sc is None:
                continue
            samples = [[x["seq"] for x in recs] for recs in sc["samples"]]
            anc = sc["ancestor"]
            for si, p in enumerate(sc["sites"]):
                col = sc["alleles"][si]
                if si == 0 and ci % 2 == 0:
                    # every carrier of the rarest allele also holds a copy with the commonest one: that allele is seen only in
                    # ambiguous ('N') samples, the column is left with a single A/C/G/T allele and must not be reported
                    rare = min(set(col), key=lambda a: (col.count(a), a))
                    common = max(set(col), key=lambda a: (col.count(a), a))
                    lo_, hi_ = max(0, p - k - rng.randint(0, 5)), min(len(anc), p + k + 1 + rng.randint(0, 5))
                    for smp in range(ns):
                        if col[smp] == rare:
                            samples[smp].append(anc[lo_:p] + common + anc[p + 1:hi_])
                    continue
                for smp in rng.sample(range(ns), rng.choice([0, 1, 1, 2])):
                    other = rng.choice([x for x in set(sc["alleles"][si]) if x != sc["alleles"][si][smp]])
                    lo_, hi_ = max(0, p - k - rng.randint(0, 5)), min(len(anc), p + k + 1 + rng.randint(0, 5))
                    samples[smp].append(anc[lo_:p] + other + anc[p + 1:hi_])
            names = ["m%d_%d" % (ci, i) for i in range(ns)]
            sb.reset()
            missing = rng.choice([None, 0.0, 0.1, 0.15, 0.2, 0.4])
            if ci % 2 == 0:
                missing = 0.4           # generous, so that the ambiguous carriers alone do not rule the column out
            r = run_lo(sb, samples, names, k, "m%d" % ci, threads=rng.choice([1, 2, 4]), missing=missing)
            if r.get("err", "").startswith("build failed"):
                continue
            refused = r["rc"] != 0 and "no entry node" in r.get("err", "")
            mnum = 100 if missing is None else int(round(missing * 1000))
            ev = {"ev": "lo.any", "id": 2000 + ci, "ctx": {"k": k, "missing": [mnum, 1000], "mixed": True},
                  "refused": refused, "panic": "" if (r["rc"] == 0 or refused) else (r["err"] or "exit")}
            ev["seqs"] = [b(s) for s in r["snps"][1]] if r["rc"] == 0 else []
            if r["rc"] != 0:
                ev["samples"] = samples
            events.append(ev)
            run.evaluations += 1
            if r["rc"] == 0 and any(c not in "ACGT-" for s_ in r["snps"][1] for c in s_):
                run.nontriv(["mixed", samples, k, mnum])
    finally:
        sb.close()
    return events


def indel_events(run, tier, seed, tag, ks=None, fixed_len=None, n=None, twins=False):
    """ks / fixed_len / n given: one class of the stated domain (these k, this indel length), non-tandem only."""
    rng = random.Random(seed)
    one_class = fixed_len is not None
    ks = ks or [11, 15, 21, 31]
    n = n or (36 if tier == "quick" else 360)
    sb = skacli.Sandbox(tag)
    events = []
    try:
        for ci in range(n):
            k = rng.choice(ks)
            ns = rng.randint(3, 8)
            nind = rng.randint(1, 3)
            length = rng.randint(10 * k + nind * 5 * k, 14 * k + nind * 6 * k)
            if twins:
                nind = 3
                length = rng.randint(10 * k + nind * 5 * k, 14 * k + nind * 6 * k)
            sc = derive.lo_indel_scenario(rng, k, ns, length, nind, tandem=(ci % 3 == 2 and not one_class), fixed_len=fixed_len, twins=twins)
            if sc is None:
                continue
            names = ["i%d_%d" % (ci, (7 * i + 3) % 11) for i in range(ns)]      # input order is not the alphabetical order
            sb.reset()
            threads = rng.choice([1, 2, 3, 4])
            r = run_lo(sb, [[x["seq"] for x in recs] for recs in sc["samples"]], names, k, "i%d" % ci, threads=threads, missing=0.0)
            ctx = {"k": k, "names": names, "samples": ctx_samples(sc["samples"]), "pre_strict": sc["pre_strict"], "threads": threads,
                   "stratum": sc["stratum"],
                   "planted": [{"len": x["len"], "seq": b(x["seq"]), "long": [i + 1 for i in x["long"]], "kind": x["kind"], "pos": x["pos"]}
                               for x in sc["planted"]]}
            ev = {"ev": "lo.indels", "id": ci, "ctx": ctx, "panic": "" if r["rc"] == 0 else (r["err"] or "exit")}
            if r["rc"] == 0:
                ev["records"] = r["indels"]
            events.append(ev)
            run.evaluations += 1
            if sc["pre_strict"]:
                run.nontriv([sc["ancestor"], [(x["pos"], x["seq"], x["carriers"]) for x in sc["planted"]], k])
    finally:
        sb.close()
    return events
