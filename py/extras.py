"""Specification growth beyond the listed properties (Cli.tla): checked against the real CLI and
reported in the evidence as extra coverage; a disagreement is MODEL-DRIFT (exit 0), never a
VIOLATION, because no listed property states these behaviours."""
import os, shutil, concurrent.futures
import vlib


def sample_names(run, tier):
    d = vlib.design_check("MC_Cli", "MC_Cli", "extra-cli", workers=4, timeout=600, want_replay=True)
    run.add_design(d)
    behs = d["replay"]
    if tier == "quick":
        behs = behs[::3]
    tmp = vlib.shm_dir("cli")

    def one(args):
        i, beh = args
        rel = "".join(beh["path"])
        base = os.path.join(tmp, "w%d" % i)
        full = os.path.join(base, rel)
        try:
            os.makedirs(os.path.dirname(full), exist_ok=True)
            if os.path.isdir(full):
                return None
            open(full, "w").write(">r\nACGTTGCAATGGC\n")
        except OSError:
            return None
        rc, so, se = vlib.ska_cli(["build", "-k", "7", "-o", "out", rel], cwd=base)
        if rc != 0:
            return ("build failed", beh, se.decode(errors="replace")[-100:])
        t = vlib.parse_nk(vlib.ska_cli(["nk", os.path.join(base, "out.skf")])[1].decode())
        want = "".join(beh["name"])
        return None if t["names"] == [want] else ("name differs", beh, t["names"])

    try:
        with concurrent.futures.ThreadPoolExecutor(max_workers=12) as ex:
            res = list(ex.map(one, list(enumerate(behs))))
    finally:
        shutil.rmtree(tmp, ignore_errors=True)
    bad = [r for r in res if r]
    run.extra["extra_cli_sample_names"] = {"replayed": len(behs), "disagreements": len(bad),
                                           "first": [str(x)[:200] for x in bad[:2]]}
    run.replayed += len(behs)
    run.drift += len(bad)


def arg_validation(run, tier):
    """Cli.tla: accepted argument values, no output after a refusal, --proportion-reads sub-sampling."""
    import random
    tmp = vlib.shm_dir("cliargs")
    events = []
    try:
        fa = os.path.join(tmp, "a.fa")
        vlib.write_fasta(fa, ["ACGTTGCAATGGCATTACGGATCAGGCATTTACGAGCAT" * 2])
        for k in [3, 4, 5, 6, 7, 31, 32, 33, 62, 63, 64, 65, 0]:
            for (t, prop) in [(1, [1000, 1000]), (0, [1000, 1000]), (2, [500, 1000]), (1, [1500, 1000])]:
                out = os.path.join(tmp, "o_%d_%d_%d" % (k, t, prop[0]))
                rc, so, se = vlib.ska_cli(["build", "-k", str(k), "-o", out, fa, "--threads", str(t),
                                           "--proportion-reads", "%.3f" % (prop[0] / prop[1])])
                events.append({"ev": "cli.args", "k": k, "threads": t, "prop": prop, "rc": 0 if rc == 0 else 1,
                               "out_exists": os.path.exists(out + ".skf")})
        skf = os.path.join(tmp, "ok")
        vlib.ska_cli(["build", "-k", "9", "-o", skf, fa])
        for f in [[0, 1000], [1000, 1000], [1001, 1000], [2000, 1000], [500, 1000]]:
            rc, so, se = vlib.ska_cli(["align", skf + ".skf", "--min-freq", "%.3f" % (f[0] / f[1])])
            events.append({"ev": "cli.freq", "freq": f, "rc": 0 if rc == 0 else 1})
        # sub-sampling: each record carries a private k-mer; which records contributed is read back from nk
        rng = random.Random(5)
        for step, p in [(1, "1"), (2, "0.5"), (3, "0.34"), (4, "0.25")]:
            n = 9
            recs = ["".join(rng.choice("ACGT") for _ in range(21)) for _ in range(n)]
            fq = os.path.join(tmp, "r%d.fa" % step)
            vlib.write_fasta(fq, recs)
            out = os.path.join(tmp, "sub%d" % step)
            rc, so, se = vlib.ska_cli(["build", "-k", "21", "-o", out, fq, "--proportion-reads", p, "--single-strand"])
            t = vlib.parse_nk(vlib.ska_cli(["nk", "--full-info", out + ".skf"])[1].decode())
            arms = {tuple(r[0]) for r in t["rows"]}
            kept = [i + 1 for i, r in enumerate(recs) if tuple(vlib.digits(r[:10] + r[11:])) in arms]
            events.append({"ev": "cli.sub", "records": list(range(1, n + 1)), "step": step, "kept": kept})
    finally:
        shutil.rmtree(tmp, ignore_errors=True)
    ok, bad, states = vlib.validate_trace("Trace_Cli", events, "extra-cliargs", shards=1, timeout=300)
    run.extra["extra_cli_arguments"] = {"events": len(events), "disagreements": len(bad),
                                        "first": [str(events[i])[:200] for i in bad[:3]]}
    run.states += states
    run.drift += len(bad)


def auto_min_count(run, tier, seed):
    """Cli.tla AutoMinCount: `ska build --min-count auto` = `--min-count c`, c = cutoff of `ska cov` on the first
    files of the first two paired samples, or 5 with fewer than two paired samples (drift only)."""
    import random
    from props.c20 import simulate_reads
    from props.c12 import write_fastq
    rng = random.Random(seed + 77)
    tmp = vlib.shm_dir("auto")
    events = []
    try:
        for i in range(2 if tier == "quick" else 6):
            k = rng.choice([15, 21, 31])
            npaired = 2 if i % 2 == 0 else 1
            files = []
            for sidx in range(npaired):
                reads = simulate_reads(rng, rng.randint(900, 1300), rng.randint(15, 30), 0.01, k)
                half = len(reads) // 2
                f1, f2 = os.path.join(tmp, "a%d_%d_1.fastq" % (i, sidx)), os.path.join(tmp, "a%d_%d_2.fastq" % (i, sidx))
                write_fastq(f1, reads[:half], ["I" * len(r) for r in reads[:half]])
                write_fastq(f2, reads[half:], ["I" * len(r) for r in reads[half:]])
                files.append((f1, f2))
            cutoff = 0
            if npaired >= 2:
                rc, so, se = vlib.ska_cli(["cov", files[0][0], files[1][0], "-k", str(k)])
                cut = [int(x.split("\t")[1]) for x in se.decode().splitlines() if x.startswith("Estimated cutoff")]
                if rc != 0 or not cut:
                    continue
                cutoff = cut[0]
            fl = os.path.join(tmp, "a%d.txt" % i)
            open(fl, "w").write("".join("s%d\t%s\t%s\n" % (j, a, b_) for j, (a, b_) in enumerate(files)))
            want = cutoff if npaired >= 2 else 5
            tabs = []
            for mc in ("auto", str(want)):
                out = os.path.join(tmp, "a%d_%s" % (i, mc))
                rc, so, se = vlib.ska_cli(["build", "-k", str(k), "-o", out, "-f", fl, "--min-count", mc])
                if rc != 0:
                    tabs.append(None)
                    continue
                t = vlib.parse_nk(vlib.ska_cli(["nk", "--full-info", out + ".skf"])[1].decode())
                tabs.append([t["names"], t["rows"]])
            events.append({"ev": "cli.auto", "npaired": npaired, "cov_cutoff": cutoff, "count_used": want,
                           "same_table": tabs[0] is not None and tabs[0] == tabs[1]})
    finally:
        shutil.rmtree(tmp, ignore_errors=True)
    if not events:
        return
    ok, bad, states = vlib.validate_trace("Trace_Cli", events, "extra-auto", shards=1, timeout=300)
    run.extra["extra_cli_min_count_auto"] = {"events": len(events), "disagreements": len(bad),
                                             "first": [str(events[i])[:200] for i in bad[:2]]}
    run.states += states
    run.drift += len(bad)
