"""Driver for `ska map` (C04, C05): references, derived samples, CLI + library runs, VCF parsing."""
import os, random, json, shutil
import vlib, gen, skacli
from vlib import b, revcomp


def parse_vcf(text):
    contigs, samples, recs = [], [], []
    for line in text.splitlines():
        if line.startswith("##contig=<ID="):
            contigs.append(line[len("##contig=<ID="):].split(",")[0].rstrip(">"))
        elif line.startswith("#CHROM"):
            samples = line.split("\t")[9:]
        elif line and not line.startswith("#"):
            f = line.split("\t")
            try:
                alts = [] if f[4] == "." else [ord(x) for x in f[4].split(",")]
                gts = [(-1 if g == "." else int(g)) for g in f[9:]]
                recs.append({"chrom": f[0], "pos": int(f[1]), "ref": ord(f[3]), "alts": alts, "gts": gts})
            except (IndexError, ValueError, TypeError):
                # a line that is not a record is data (e.g. the tail of an older, longer file): a record no model allows
                recs.append({"chrom": "<malformed line>", "pos": -1, "ref": 63, "alts": [], "gts": []})
    return {"contigs": contigs, "samples": samples, "records": recs}


def make_reference(rng, k, tier):
    nc = rng.choice([1, 1, 2, 2, 3, 4])
    contigs = []
    for ci in range(nc):
        r = rng.random()
        if r < 0.15 and nc > 1:
            n = rng.choice([0, 1, 2, k - 1, k // 2])       # shorter than k (no k-mers), incl. empty
        elif r < 0.3:
            n = rng.choice([k, k + 1, k + 2, 2 * k])
        else:
            n = rng.randint(2 * k, 3 * k + (60 if tier == "quick" else 200))
        contigs.append(gen.rand_seq(rng, n))
    # planted repeats: direct and inverted copies of a stretch, within and across contigs
    longs = [i for i, c in enumerate(contigs) if len(c) >= 3 * k]
    if longs and rng.random() < 0.6:
        i = rng.choice(longs)
        c = contigs[i]
        a = rng.randint(0, len(c) - k - 2)
        piece = c[a:a + rng.randint(k, min(len(c) - a, k + 6))]
        if rng.random() < 0.5:
            piece = revcomp(piece)
        j = rng.choice(longs)
        d = contigs[j]
        at = rng.randint(0, len(d) - len(piece))
        contigs[j] = d[:at] + piece + d[at + len(piece):]
    # a long repeat (several consecutive repeated k-mers) whose second copy is interrupted by an N: the windows on
    # both sides of the N are repeats, the windows across it do not exist
    if rng.random() < 0.3:
        piece = gen.rand_seq(rng, rng.randint(2 * k + 2, 3 * k + 2))
        cut = rng.randint(k, len(piece) - k - 1)
        broken = piece[:cut] + "N" + piece[cut + 1:]
        if rng.random() < 0.5:
            broken = revcomp(broken)
        pair = [piece, broken]
        rng.shuffle(pair)
        i, j = rng.randrange(len(contigs)), rng.randrange(len(contigs))
        contigs[i] = contigs[i] + pair[0] + gen.rand_seq(rng, rng.randint(0, 5))
        contigs[j] = gen.rand_seq(rng, rng.randint(0, 5)) + pair[1] + contigs[j]
    out = []
    for c in contigs:
        if len(c) > k and rng.random() < 0.3:
            c = gen.plant_ns(rng, c, k)
        if rng.random() < 0.4:
            c = gen.mutate_case(rng, c, p=0.5)
        out.append(c)
    if not any(sum(1 for ch in c if ch in "ACGTacgt") >= k for c in out):
        out[0] = gen.rand_seq(rng, 2 * k + 3)
    return out


def derive_samples(rng, contigs, k, ns):
    samples = []
    # "hot" positions where every sample draws its own base: multi-allelic sites (three or more
    # alleles, in any sample order) for the genotype numbering of the VCF
    hot = []
    for c in contigs:
        hs, p = [], rng.randint(0, k)
        while p < len(c):
            hs.append(p)
            p += k + 1 + rng.randint(0, k)          # further than k apart: each stays the centre of an intact window
        hot.append(hs if rng.random() < 0.8 else [])
    for _ in range(ns):
        recs = []
        for ci_, c in enumerate(contigs):
            s = list(c.upper().replace("N", rng.choice("ACGT")))
            for p in hot[ci_]:
                s[p] = rng.choice("ACGT")
            for p in range(len(s)):
                if rng.random() < 0.003:
                    s[p] = rng.choice("ACGT")
            s = "".join(s)
            if len(s) > 2 * k and rng.random() < 0.25:            # indel
                p = rng.randint(1, len(s) - 2)
                s = s[:p] + (gen.rand_seq(rng, rng.randint(1, 4)) if rng.random() < 0.5 else "") + s[p + rng.randint(0, 3):]
            if len(s) > 2 * k and rng.random() < 0.2:             # missing region
                p = rng.randint(0, len(s) - k)
                s = s[:p] + s[p + rng.randint(1, k):]
            if rng.random() < 0.3:
                s = revcomp(s)
            if len(s) >= 1:
                recs.append(s)
        rng.shuffle(recs)                                           # rearranged contigs
        if rng.random() < 0.3 and recs and len(recs[0]) > 2 * k:
            # a repeat with another middle base -> ambiguity codes in the table
            a = rng.randint(0, len(recs[0]) - k)
            w = recs[0][a:a + k]
            h = (k - 1) // 2
            recs.append(w[:h] + rng.choice("ACGT") + w[h + 1:])
        if rng.random() < 0.1:
            recs = [gen.rand_seq(rng, 3 * k)]                       # unrelated sample
        samples.append(recs or [gen.rand_seq(rng, k)])
    return samples


def run_cases(run, tier, seed, tag, with_ref_events=True):
    rng = random.Random(seed)
    ncase = 30 if tier == "quick" else 400
    sb = skacli.Sandbox(tag)
    events, lib_ops, ref_ops = [], [], []
    try:
        for ci in range(ncase):
            k = gen.ALLK[ci % 30] if ci < 60 else rng.choice(gen.ALLK)
            rc = rng.random() < 0.75
            contigs = make_reference(rng, k, tier)
            cnames = ["c%d" % i for i in range(len(contigs))]
            ns = rng.randint(1, 6)
            samples = derive_samples(rng, contigs, k, ns)
            names = ["s%d_%d" % (ci, i) for i in range(ns)]
            ref = os.path.join(sb.dir, "ref%d.fa" % ci)
            vlib.write_fasta(ref, contigs, names=cnames, wrap=rng.choice([None, None, 60, 13]))
            sb.reset()
            e = sb.build("x", samples, names, k, rc)
            if not e.get("ok"):
                continue
            table = {k_: e["table"][k_] for k_ in ("k", "rc", "names", "rows")}
            am, rm = (ci % 4) in (1, 3), (ci % 4) in (2, 3)
            if ci % 7 == 0:
                am, rm = rng.random() < 0.5, True
            ctx = {"contigs": [b(c) for c in contigs], "cnames": cnames, "table": table, "ambig_mask": am, "repeat_mask": rm}
            run.evaluations += 1
            # CLI, both output formats, a thread count
            th = rng.choice([1, 1, 2, 4])
            flags = (["--ambig-mask"] if am else []) + (["--repeat-mask"] if rm else []) + ["--threads", str(th)]
            if ci % 3 == 0:
                # through -o, into one file that already holds an earlier (longer or shorter) result
                mo = os.path.join(sb.dir, "map_result_of_dash_o.txt")
                r1, so1, se1 = vlib.ska_cli(["map", ref, sb.path("x"), "-o", mo] + flags)
                so1 = open(mo, "rb").read() if r1 == 0 else so1
                r2, so2, se2 = vlib.ska_cli(["map", ref, sb.path("x"), "-f", "vcf", "-o", mo] + flags)
                so2 = open(mo, "rb").read() if r2 == 0 else so2
            else:
                r1, so1, se1 = vlib.ska_cli(["map", ref, sb.path("x")] + flags)
                r2, so2, se2 = vlib.ska_cli(["map", ref, sb.path("x"), "-f", "vcf"] + flags)
            ev = {"ev": "map", "via": "cli", "id": ci, "ctx": ctx, "threads": th}
            if r1 != 0 or r2 != 0:
                ev["panic"] = (se1 if r1 else se2).decode(errors="replace")[-300:] or "exit"
            else:
                nm, seqs = vlib.parse_fasta_text(so1.decode())
                ev["aln"] = {"names": nm, "seqs": [b(s) for s in seqs]}
                ev["vcf"] = parse_vcf(so2.decode())
                ev["panic"] = ""
                mapped = sum(1 for s in seqs for ch in s if ch != "-")
                if seqs and 0 < mapped < sum(len(s) for s in seqs) or am or rm:
                    run.nontriv([contigs, table["rows"], am, rm, k, rc])
            events.append(ev)
            w = 64 if k <= 31 else 128
            lib_ops.append({"op": "map", "w": w, "id": ci, "table": table, "file": ref, "ambig_mask": am, "repeat_mask": rm,
                            "threads": 1, "ctx": ctx})
            if with_ref_events:
                ref_ops.append({"op": "ref", "w": w, "id": ci, "k": k, "file": ref, "rc": rc, "ambig_mask": am, "repeat_mask": rm,
                                "ctx": {"contigs": [b(c) for c in contigs], "k": k, "rc": rc, "repeat_mask": rm}})
        # synthetic tables: every reference k-mer (or a random subset) present with random bytes from all 15
        # IUPAC codes and '-', so that every code meets both strand orientations of reference k-mers
        import derive as _dv
        for ci in range(max(6, ncase // 3)):
            k = rng.choice([5, 7, 9, 11, 15, 21, 31, 33, 41, 63])
            contigs = make_reference(rng, k, "quick")
            contigs = [c.upper() for c in contigs]
            cnames = ["c%d" % i for i in range(len(contigs))]
            ns = rng.randint(1, 4)
            rows, seen = [], set()
            for c in contigs:
                for i in range(len(c) - k + 1):
                    w = c[i:i + k]
                    if any(ch not in "ACGT" for ch in w) or rng.random() < 0.3:
                        continue
                    arms, isrc, pal = _dv.canon_arms(w)
                    if arms in seen:
                        continue
                    seen.add(arms)
                    bases = [ord(rng.choice("ACGTRYSWKMBDHVN-ACGT")) for _ in range(ns)]
                    if all(x == 45 for x in bases):
                        bases[0] = 65
                    rows.append([vlib.digits(arms), bases])
            if not rows:
                continue
            rows.sort()
            ref = os.path.join(sb.dir, "sref%d.fa" % ci)
            vlib.write_fasta(ref, contigs, names=cnames)
            table = {"k": k, "rc": True, "names": ["y%d_%d" % (ci, i) for i in range(ns)], "rows": rows}
            am, rm = rng.random() < 0.3, rng.random() < 0.3
            ctx = {"contigs": [b(c) for c in contigs], "cnames": cnames, "table": table, "ambig_mask": am, "repeat_mask": rm}
            lib_ops.append({"op": "map", "w": 64 if k <= 31 else 128, "id": 5000 + ci, "table": table, "file": ref, "ambig_mask": am,
                            "repeat_mask": rm, "threads": 1, "ctx": ctx})
            run.evaluations += 1
            run.nontriv(["synthetic", contigs, rows, am, rm])
        # the real AlnWriter driven directly on large random shapes (beyond MC_AlnWriter's bound)
        aln_ops = []
        for ci in range(12 if tier == "quick" else 150):
            k = rng.choice([5, 7, 9, 15, 21, 31, 41, 63])
            h = (k - 1) // 2
            nc = rng.randint(1, 4)
            lens = [rng.choice([0, 1, h, k - 1, k, k + 1, 2 * k, rng.randint(2 * k, 5 * k + 20)]) for _ in range(nc)]
            contigs = [gen.rand_seq(rng, n, "ACGTacgtN") for n in lens]
            writes = []
            for c, n in enumerate(lens):
                p = h
                while p + h <= n - 1:
                    if rng.random() < rng.choice([0.1, 0.5, 0.9]):
                        writes.append([p, c, ord(rng.choice("ACGTRYN"))])
                    p += rng.choice([1, 1, 1, 2, h, h + 1, h + 2, k, k + 3])
            total = sum(lens)
            reps = sorted(rng.sample(range(total), min(total, rng.choice([0, 0, 3, 10])))) if total else []
            ctx = {"k": k, "contigs": [b(c) for c in contigs], "repeats": reps, "mask_ambig": rng.random() < 0.5, "writes": writes}
            aln_ops.append({"op": "aln", "id": 7000 + ci, "k": k, "contigs": ctx["contigs"], "repeats": reps,
                            "mask_ambig": ctx["mask_ambig"], "writes": writes, "ctx": ctx})
            run.evaluations += 1
            if writes:
                run.nontriv(["alnrun", lens, writes[:5], k])
        events += vlib.skav_parallel("exec", aln_ops, jobs=8)
        for ev in vlib.skav_parallel("exec", lib_ops, jobs=8):
            ev["via"] = "lib"
            if ev.get("panic", "") == "":
                ev["vcf"] = parse_vcf(ev["vcf"])
            events.append(ev)
        events += vlib.skav_parallel("exec", ref_ops, jobs=8)
    finally:
        sb.close()
    return events
