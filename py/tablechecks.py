"""Drivers shared by C07, C08, C10, C13 (file histories) built on skacli.Sandbox + Trace_Ska."""
import random, json
import vlib, gen, skacli, skahist
from vlib import b

FILTERS = ["no-filter", "no-const", "no-ambig", "no-ambig-or-const"]
BOUNDARY_K = [29, 31, 33, 35, 63]


def pick_k(rng, i):
    if i % 3 == 0:
        return BOUNDARY_K[(i // 3) % len(BOUNDARY_K)]
    return rng.choice(gen.ALLK)


def jsamples(samples):
    return [[b(r) for r in s] for s in samples]


def design_and_replay(run, tier, seed, want, tag, nreplay, focus=None):
    """MC_Ska design check; replay the histories selected by `want(beh)` through the CLI.
    `focus` selects the configuration that explores only histories containing that kind of operation."""
    cfg = ("MC_Ska_quick" if tier == "quick" else "MC_Ska_thorough") + ("_" + focus if focus else "")
    d = vlib.design_check("MC_Ska", cfg, tag + "-ska", workers=8, timeout=3000, want_replay=True)
    run.add_design(d)
    rep = [r for r in d["replay"] if want(r)]
    rng = random.Random(seed)
    rng.shuffle(rep)
    # histories in which a file written with --filter-ambig-as-missing (its cached counts then differ
    # from a fresh file's) is operated on again are the ones hidden state can show in: take them first
    def hidden(r):
        h = r["hist"]
        return any(x["op"]["do"] == "weed" and x["op"]["opts"]["ambigMissing"] for x in h)
    def hidden_delete(r):
        h = r["hist"]
        return any(x["op"]["do"] == "weed" and x["op"]["opts"]["ambigMissing"] and i + 1 < len(h) and h[i + 1]["file"] == x["file"]
                   and h[i + 1]["op"]["do"] == "delete" for i, x in enumerate(h))
    t0 = [r for r in rep if hidden_delete(r)]
    t1 = [r for r in rep if hidden(r) and not hidden_delete(r)]
    t2 = [r for r in rep if not hidden(r)]
    n0 = min(len(t0), max(nreplay // 2, 300))
    n1 = min(len(t1), max((nreplay - n0) // 2, 0))
    rep = t0[:n0] + t1[:n1] + t2[:max(nreplay - n0 - n1, 20)]
    # a random subset of the probe battery per history keeps the replay affordable
    for r in rep:
        r["probes"] = rng.sample(r["probes"], min(len(r["probes"]), 6))
    verdicts = skahist.replay_all(rep, jobs=14)
    run.replayed += len(rep)
    for beh, v in zip(rep, verdicts):
        ops = [h["op"]["do"] for h in beh["hist"]]
        if not v.get("ok"):
            ev = v.get("event", {})
            case = {"kind": "replay", "behaviour": beh, "verdict": v, "ev": ev.get("ev"),
                    "via": ev.get("ctx", {}).get("via")}
            run.fail(case, "history %s diverges in the real CLI: %s" % (ops, v.get("why", "")[:200]))
        elif len(ops) >= 2:
            run.nontriv(["hist", [h["op"] for h in beh["hist"]]])
    if rep:
        s = dict(rep[0]); s["probes"] = s["probes"][:1]
        run.sample({"replayed_history": s})


def validate(run, events, tag, tier):
    import props.c06 as c06
    c06.validate(run, events, tag, tier)


# ---- C07 ------------------------------------------------------------------------------
def merge_episodes(run, sb, rng, tier):
    n_ep = 16 if tier == "quick" else 200
    for i in range(n_ep):
        k = pick_k(rng, i)
        rc = rng.random() < 0.7
        ns = rng.randint(2, 8) if tier != "quick" else rng.randint(2, 5)
        samples = gen.related_samples(rng, k, ns, length=rng.randint(2 * k + 5, 3 * k + 30))
        names = ["m%d_%d" % (i, j) for j in range(ns)]
        if i % 2 == 0:
            # a split k-mer private to one sample and met there with all four middle bases: its row is 'N' in that
            # sample and missing in every other one, in every file it passes through
            h = (k - 1) // 2
            w = gen.rand_seq(rng, k)
            samples[rng.randrange(ns)].append("N".join(w[:h] + m + w[h + 1:] for m in "ACGT"))
        # partition into 2..4 files (contiguous groups, then shuffled order)
        nf = rng.randint(2, min(4, ns))
        cuts = sorted(rng.sample(range(1, ns), nf - 1))
        groups = [list(range(a, c)) for a, c in zip([0] + cuts, cuts + [ns])]
        sb.reset()
        fnames = []
        okb = True
        for gi, g in enumerate(groups):
            e = sb.build("f%d" % gi, [samples[j] for j in g], [names[j] for j in g], k, rc, threads=rng.choice([1, 2]))
            okb = okb and e.get("ok")
            fnames.append("f%d" % gi)
        if not okb:
            continue
        order = list(range(len(groups)))
        rng.shuffle(order)
        run.evaluations += 1
        if rng.random() < 0.5 and len(order) >= 3:
            # nested: merge two, then merge the result with the rest
            first = order[:2]
            j1 = [x for g in first for x in groups[g]]
            sb.merge([fnames[g] for g in first], "n1",
                     extra={"joint": {"samples": jsamples([samples[x] for x in j1]), "names": [names[x] for x in j1]}})
            rest = order[2:]
            jall = j1 + [x for g in rest for x in groups[g]]
            sb.merge(["n1"] + [fnames[g] for g in rest], "out",
                     extra={"joint": {"samples": jsamples([samples[x] for x in jall]), "names": [names[x] for x in jall]}})
        else:
            jall = [x for g in order for x in groups[g]]
            sb.merge([fnames[g] for g in order], "out",
                     extra={"joint": {"samples": jsamples([samples[x] for x in jall]), "names": [names[x] for x in jall]}})
        sb.nk_event("out")
        run.nontriv(["merge", k, rc, samples, groups, order])
        # refusal: different k or strand mode -> no output file
        if i % 4 == 0:
            k2 = k + 2 if k < 63 else k - 2
            bad = sb.build("odd", [samples[0]], ["odd"], k2 if i % 8 == 0 else k, rc if i % 8 == 0 else (not rc))
            if bad.get("ok"):
                sb.merge([fnames[0], "odd"], "refused")
                sb.merge(["odd", fnames[0]], "refused2")
                run.evaluations += 1


def merge_width_refusals(run, sb, rng):
    """files whose k differs ACROSS the 64/128-bit boundary (31 vs 33, 29 vs 35), in both argument orders and as a
    third input: refused, and no output file (the later inputs are loaded with the first file's integer type)"""
    for (ka, kb) in ((31, 33), (33, 31), (29, 35)):
        s1 = [gen.rand_seq(rng, 2 * 35 + 20)]
        s2 = [s1[0][:60] + gen.rand_seq(rng, 40)]
        sb.reset()
        ea = sb.build("wa", [s1], ["wa"], ka, True)
        eb = sb.build("wb", [s2], ["wb"], kb, True)
        ec = sb.build("wc", [s2], ["wc"], ka, True)
        if ea.get("ok") and eb.get("ok") and ec.get("ok"):
            sb.merge(["wa", "wb"], "ref1")
            sb.merge(["wa", "wc", "wb"], "ref2")
            run.evaluations += 2


# ---- C08 ------------------------------------------------------------------------------
def delete_episodes(run, sb, rng, tier):
    n_ep = 16 if tier == "quick" else 200
    for i in range(n_ep):
        k = pick_k(rng, i)
        rc = rng.random() < 0.7
        ns = rng.randint(2, 8) if tier != "quick" else rng.randint(2, 6)
        samples = gen.related_samples(rng, k, ns, length=rng.randint(2 * k + 5, 3 * k + 30), snp_rate=0.05)
        names = ["d%d_%d" % (i, j) for j in range(ns)]
        if i % 4 == 2:
            # every sample holds a run of one base longer than k (the all-A split k-mer, 0 in the packed encoding): it stays
            # with whatever samples remain
            run_ = ("T" if (rc and i % 8 == 6) else "A") * (k + rng.randint(0, 2))
            for s_ in samples:
                s_.append(run_)
        sb.reset()
        e = sb.build("x", samples, names, k, rc)
        if not e.get("ok"):
            continue
        nd = rng.randint(1, ns - 1)
        dele = sorted(rng.sample(range(ns), nd))
        if i % 5 == 0:
            dele = [0] if nd == 1 else [0, ns - 1][:nd]           # first / last columns
        keep = [j for j in range(ns) if j not in dele]
        via = "file" if i % 2 == 0 else "args"
        dn = [names[j] for j in dele]
        rng.shuffle(dn)
        run.evaluations += 1
        # refusals first (file must stay unchanged): unknown name, all names
        if i % 3 == 0:
            sb.delete("x", ["nosuchsample"], via="args")
            sb.delete("x", list(names), via=via)
            sb.delete("x", [names[0], "nosuchsample"], via="args")
        # names given more than once: the request is the SET of names. Every sample named (one of them twice) is still
        # "all samples"; one sample named as many times as there are samples is still a single sample.
        if i % 3 == 1:
            sb.delete("x", list(names) + [names[-1]], via=via)
            sb.delete("x", [names[0]] * ns, via=via, out="z",
                      extra={"rest": {"samples": jsamples(samples[1:]), "names": names[1:]}})
            dn = dn + [dn[0]]
        sb.delete("x", dn, via=via, out="y" if i % 4 == 1 else None,
                  extra={"rest": {"samples": jsamples([samples[j] for j in keep]), "names": [names[j] for j in keep]}})
        sb.nk_event("y" if i % 4 == 1 else "x")
        run.nontriv(["delete", k, rc, samples, dele, via])


# ---- C13 ------------------------------------------------------------------------------
def weed_set(rng, samples, k):
    """Weed sequences cut from the samples (some reverse-complemented / with N) + unrelated."""
    recs = []
    for _ in range(rng.randint(1, 3)):
        s = rng.choice(rng.choice(samples))
        if len(s) <= k:
            continue
        a = rng.randint(0, len(s) - k)
        z = rng.randint(a + k, min(len(s), a + 3 * k))
        piece = s[a:z]
        if rng.random() < 0.5:
            piece = vlib.revcomp(piece)
        if rng.random() < 0.3 and len(piece) > k + 2:
            # an N anywhere, or placed so that exactly k (or k+1) bases follow it to the end of the record
            p = rng.choice([rng.randint(1, len(piece) - 2), len(piece) - k - 1, len(piece) - k - 2])
            p = max(1, p)
            piece = piece[:p] + "N" + piece[p + 1:]
        recs.append(piece)
    if rng.random() < 0.5:
        # a record cut from a sample with an N placed so that exactly k bases follow it to the end of the record
        s = rng.choice(rng.choice(samples))
        if len(s) >= k + 4 and "N" not in s.upper():
            a = rng.randint(0, len(s) - k - 4)
            piece = s[a:a + k + 4 + rng.randint(0, min(5, len(s) - a - k - 4))]
            if rng.random() < 0.5:
                piece = vlib.revcomp(piece)
            p = len(piece) - k - 1
            recs.append(piece[:p] + rng.choice("Nn") + piece[p + 1:])
    if rng.random() < 0.4 or not recs:
        recs.append(gen.rand_seq(rng, rng.randint(k, 2 * k)))       # unrelated
    if rng.random() < 0.15:
        recs = [r for s in samples for r in s]                      # everything
    return recs


def weed_episodes(run, sb, rng, tier):
    n_ep = 14 if tier == "quick" else 180
    for i in range(n_ep):
        k = pick_k(rng, i)
        rc = rng.random() < 0.7
        ns = rng.randint(1, 5)
        samples = gen.related_samples(rng, k, ns, length=rng.randint(2 * k + 5, 3 * k + 40), snp_rate=0.04)
        names = ["w%d_%d" % (i, j) for j in range(ns)]
        pal = None
        if i % 2 == 0:
            # a split k-mer whose arms are each other's reverse complement (an inverted repeat around one base), present in a
            # sample and - with another middle base half of the time - in the weed file
            pal = gen.selfrc_window(rng, k)
            samples[rng.randrange(ns)].append(gen.rand_seq(rng, rng.randint(0, 6)) + pal + gen.rand_seq(rng, rng.randint(0, 6)))
        sb.reset()
        e = sb.build("x", samples, names, k, rc)
        if not e.get("ok"):
            continue
        w = weed_set(rng, samples, k)
        if i % 4 == 1:
            # a run of one base longer than k in a sample, and the weed file BEGINS with such a run (the all-A split k-mer is
            # the number 0 in the packed encoding; with both strands a run of T is the same k-mer)
            x = "AT"[(i // 4) % 2] if rc else "A"
            samples_run = ("A" if x == "A" else "T") * (k + 2) + gen.rand_seq(rng, 4)
            sb.reset()
            samples[0].append(samples_run)
            e = sb.build("x", samples, names, k, rc)
            if not e.get("ok"):
                continue
            w.insert(0, x * (k + rng.randint(0, 3)) + gen.rand_seq(rng, rng.randint(0, 5)))
        if pal is not None:
            h = (k - 1) // 2
            w.append(gen.rand_seq(rng, rng.randint(0, 4)) + pal[:h] + (rng.choice("ACGT") if i % 4 == 0 else pal[h]) + pal[h + 1:] + gen.rand_seq(rng, rng.randint(0, 4)))
        if not any(_has_window(r, k) for r in w):
            continue        # precondition: a weed file without any window makes the tool refuse (not covered)
        z = [0, 1000]
        run.evaluations += 1
        sb.weed("x", w, False, z, "no-filter", False, False, False, out="fwd")
        sb.weed("x", w, True, z, "no-filter", False, False, False, out="rev")
        sb.weed("fwd", w, False, z, "no-filter", False, False, False, out="fwd2")     # idempotent
        sb.weed("rev", w, True, z, "no-filter", False, False, False, out="rev2")
        sb.weed("x", w, False, z, "no-filter", False, False, False)                     # in place
        sb.nk_event("x")
        run.nontriv(["weed", k, rc, samples, w])


def _has_window(r, k):
    n = 0
    for ch in r:
        n = n + 1 if ch in "ACGTacgt" else 0
        if n >= k:
            return True
    return False


# ---- C10 ------------------------------------------------------------------------------
def history_episodes(run, sb, rng, tier):
    n_ep = 10 if tier == "quick" else 150
    for i in range(n_ep):
        k = [7, 33, 15, 41, 31, 9, 63, 21, 11, 35][i % 10]
        rc = rng.random() < 0.7
        ns = rng.randint(3, 6 if tier == "quick" else 8)
        # repeats inside samples give ambiguity codes
        samples = gen.related_samples(rng, k, ns, length=rng.randint(2 * k + 10, 4 * k + 20), snp_rate=0.05)
        for s in samples:
            if rng.random() < 0.6 and len(s[0]) > 2 * k:
                a = rng.randint(0, len(s[0]) - k)
                win = s[0][a:a + k]
                h = (k - 1) // 2
                if "N" not in win.upper():
                    s.append(win[:h] + rng.choice("ACGT") + win[h + 1:])
        names = ["h%d_%d" % (i, j) for j in range(ns)]
        sb.reset()
        # the history starts with one merge command over 2-4 files (a k-mer present in the first and third file
        # but not in the second exercises the padding of rows inside a multi-way merge)
        nf = min(ns, rng.choice([2, 2, 3, 3, 4]))
        cuts = sorted(rng.sample(range(1, ns), nf - 1))
        bounds = list(zip([0] + cuts, cuts + [ns]))
        built = [sb.build("p%d" % fi, samples[a:b_], names[a:b_], k, rc) for fi, (a, b_) in enumerate(bounds)]
        if not all(e.get("ok") for e in built):
            continue
        sb.merge(["p%d" % fi for fi in range(nf)], "cur")
        cur = "cur"
        cur_names = list(names)
        nops = rng.randint(1, 8)
        nmerged = 0
        ops_done = ["merge"]
        for _ in range(nops):
            choice = rng.random()
            if choice < 0.2 and len(cur_names) > 2:
                d = rng.sample(cur_names, rng.randint(1, min(2, len(cur_names) - 2)))
                sb.delete(cur, d, via=rng.choice(["args", "file"]))
                cur_names = [n for n in cur_names if n not in d]
                ops_done.append("delete")
            elif choice < 0.3 and nmerged < 2:
                # merge after filter: another file joins, in either order; half of the time it has been emptied first
                # (a single sample has only constant sites) - an empty file still carries its sample
                j = rng.randrange(ns)
                xn = "h%d_x%d" % (i, nmerged)
                e = sb.build("ex%d" % nmerged, [samples[j]], [xn], k, rc)
                if not e.get("ok"):
                    continue
                if rng.random() < 0.5:
                    sb.weed("ex%d" % nmerged, None, False, [0, 1000], "no-const", False, False, False)
                nxt = "cur_m%d" % nmerged
                if rng.random() < 0.5:
                    sb.merge([cur, "ex%d" % nmerged], nxt)
                    cur_names = cur_names + [xn]
                else:
                    sb.merge(["ex%d" % nmerged, cur], nxt)
                    cur_names = [xn] + cur_names
                cur = nxt
                nmerged += 1
                ops_done.append("merge-in")
            elif choice < 0.5:
                w = weed_set(rng, samples, k)
                if not any(_has_window(r, k) for r in w):
                    continue
                sb.weed(cur, w, rng.random() < 0.3, [0, 1000], "no-filter", False, False, False)
                ops_done.append("weed")
            else:
                minf = rng.choice([[0, 1000], [0, 1000], [500, 1000], [1000, 1000]])
                filt = rng.choice(FILTERS)
                am = rng.random() < 0.5
                mask = rng.random() < 0.25
                sb.weed(cur, None, False, minf, filt, am, mask, rng.random() < 0.2)
                ops_done.append("filter" + ("-am" if am else ""))
        sb.nk_event(cur)
        n = len(cur_names)
        run.evaluations += 1
        # probe battery: results may depend only on the logical content
        for filt in FILTERS:
            for am in (False, True):
                minf = rng.choice([[0, 1000], [(1000 * j) // n, 1000] if (j := rng.randint(1, n)) else None])
                sb.align(cur, n, minf, filt, am, rng.random() < 0.3, rng.random() < 0.3)
        sb.weed(cur, None, False, [500, 1000], "no-filter", False, False, False, out="probe_w")
        # each of the two boolean weed flags alone (64- and 128-bit files go through separate call sites)
        sb.weed(cur, None, False, [0, 1000], "no-filter", False, True, False, out="probe_mask")
        sb.weed(cur, None, False, [0, 1000], "no-const", False, False, True, out="probe_nogap")
        sb.delete(cur, [cur_names[0]], out="probe_d") if n > 1 else None
        # observational equivalence with a FRESH file of the same logical content (C10): distance and map
        t = sb.nk(cur)
        if t is not None and t["rows"]:
            sb.import_table("twin", t["k"], t["rc"], t["names"], t["rows"])
            import os
            ref = os.path.join(sb.dir, "twinref%d.fa" % sb.ep)
            vlib.write_fasta(ref, samples[0] + samples[-1][:1], names=["r%d" % j for j in range(len(samples[0]) + 1)])
            for cmd, args in (("distance", ["distance", "PATH", "--min-freq", "0.5"]),
                              ("distance-ambig", ["distance", "PATH", "--allow-ambiguous"]),
                              ("map", ["map", ref, "PATH", "--ambig-mask"]),
                              ("map-vcf", ["map", ref, "PATH", "-f", "vcf", "--repeat-mask"])):
                outs = []
                for f in (cur, "twin"):
                    rc_, so_, se_ = vlib.ska_cli([sb.path(f) if a == "PATH" else a for a in args])
                    outs.append((rc_, sorted(so_.decode().splitlines()) if cmd.startswith("distance") else so_.decode()))
                sb.emit("twin", {"file": cur, "cmd": cmd}, same=(outs[0] == outs[1]), rc=outs[0][0])
                run.evaluations += 1
        if sum(1 for o in ops_done if o != "merge") >= 2 and any(o.endswith("-am") for o in ops_done):
            run.nontriv(["hist", k, rc, samples, ops_done, i])
