# claim(id, assurance text, trusted base / assumptions, technique, DESIGN.md ref)
claim("C01",
      "Bounded-exhaustive: TLC runs the implementation-shaped split k-mer iterator of spec/SplitKmer.tla over every record over {A,C,G,T,N} up to length 6 (quick) / 8 (thorough) at k=5 in both strand modes and checks it against the declarative window list; every completed behaviour is replayed step by step into the real SplitKmer<u64> and SplitKmer<u128>. Beyond the bound: generated record sets for all 30 k, both widths, through SplitKmer, SkaDict and `ska build`+`ska nk --full-info`, each recorded execution validated by TLC against the declarative dictionary (spec/trace/Trace_Kmer.tla). Exhaustive inside the bound, sampled outside it.",
      "TLC and the CommunityModules Json reader; skav's projection of packed integers to base-4 digits; needletail parsing the FASTA files the driver writes as intended; outside the small scope the inputs are sampled, not enumerated.",
      "TLA+ spec + TLC model checking; TLC behaviours replayed into the code; TLC trace validation of recorded executions",
      "DESIGN.md section 4, C01")
