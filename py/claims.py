# claim(id, assurance text, trusted base / assumptions, technique, DESIGN.md ref)
claim("C01",
      "Bounded-exhaustive: TLC runs the implementation-shaped split k-mer iterator of spec/SplitKmer.tla over every record over {A,C,G,T,N} up to length 6 (quick) / 8 (thorough) at k=5 in both strand modes and checks it against the declarative window list; every completed behaviour is replayed step by step into the real SplitKmer<u64> and SplitKmer<u128>. Beyond the bound: generated record sets for all 30 k, both widths, through SplitKmer, SkaDict and `ska build`+`ska nk --full-info`, each recorded execution validated by TLC against the declarative dictionary (spec/trace/Trace_Kmer.tla). Exhaustive inside the bound, sampled outside it.",
      "TLC and the CommunityModules Json reader; skav's projection of packed integers to base-4 digits; needletail parsing the FASTA files the driver writes as intended; outside the small scope the inputs are sampled, not enumerated.",
      "TLA+ spec + TLC model checking; TLC behaviours replayed into the code; TLC trace validation of recorded executions",
      "DESIGN.md section 4, C01")
claim("C02",
      "Design level: TLC applies every reverse-complement subset, record swap and case mask to every record set of a bounded universe (MC_Xform, k=5) and checks the declarative dictionary does not change, and that permuting samples permutes table columns. Implementation level: for generated inputs at all 30 k each transformation kind (revcomp subset, permutation, case mask, re-wrapping, gzip, sample permutation) is applied, the transformed file is built by SkaDict (both widths) and by the CLI, and TLC validates each recorded execution: the new input must be the stated transformation of the original and the recorded dictionary must equal the dictionary of the ORIGINAL input.",
      "TLC, Json reader, needletail/flate2 reading the files the driver writes; transformations are sampled (their arguments are random), the small-scope theorem is exhaustive only within MC_Xform's bounds.",
      "TLA+ spec + TLC model checking of the invariance theorem; TLC trace validation of recorded builds of transformed inputs",
      "DESIGN.md section 4, C02")
claim("C15",
      "Complete enumeration: every cell of the IUPAC (4x256) and RC_IUPAC (256) tables and is_ambiguous / base_to_prob on the property's whole domain is dumped from the real code and checked by TLC against the set-algebra definitions of spec/Bases.tla (exhaustive: true); MC_Iupac explores all orders and multiplicities of observations for ordinary and self-reverse-complement k-mers and checks the algebraic laws.",
      "TLC's evaluation of finite set algebra; skav dumps the tables verbatim. Weak fit for TLA+: a finite pure function, TLC acts as evaluator of an independent definition.",
      "TLA+ definitions evaluated by TLC over the complete finite domain (trace validation of a table dump) + small TLC state machine",
      "DESIGN.md section 4, C15")
claim("C16",
      "Design level: the data-independent shuffle network of rev_comp is model checked on position labels for every k-mer length and both widths (a proof for all k-mers of each length), masks for all 30 k, and rolling = from-scratch state in every reachable iterator state (k=7, records up to 9 bases). Implementation level: pack / rev_comp / masks / decode on every k-mer for k<=7 (thorough k<=9), structured and random k-mers for every k and width, SplitKmer with rolling read hashes and NtHashIterator on random sequences with N; each event validated by TLC against sequence-level definitions.",
      "ntHash values are uninterpreted (only rolled = from-scratch and strand symmetry are decided); complete enumeration stops at k=9 (thorough), beyond it k-mers are structured + sampled; skav's digit projection.",
      "TLA+ spec + TLC model checking of the shuffle network on label vectors; TLC trace validation of primitive calls",
      "DESIGN.md section 4, C16")
