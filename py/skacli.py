"""Runs real `ska` commands in a scratch directory and records one Trace_Ska event per command."""
import os, json, shutil, math, fractions, zlib
import vlib
from vlib import b

FILTER_FLAG = {"no-filter": "no-filter", "no-const": "no-const", "no-ambig": "no-ambig",
               "no-ambig-or-const": "no-ambig-or-const"}


def fstr(minf):
    """[num, den] -> decimal string with <= 3 places (den must divide 1000)."""
    num, den = minf
    assert 1000 % den == 0
    v = num * (1000 // den)
    s = "%d.%03d" % (v // 1000, v % 1000)
    return s


def fp_ceil_differs(n, minf):
    """f64 ceil(n * f) vs exact ceil: the tool computes the former."""
    f = float(fstr(minf))
    exact = -((-n * minf[0]) // minf[1])
    return math.ceil(n * f) != exact


def fp_floor_differs(n, minf):
    f = float(fstr(minf))
    return math.floor(n * f) != (n * minf[0]) // minf[1]


class Sandbox:
    def __init__(self, tag):
        self.dir = vlib.shm_dir(tag)
        self.events = []
        self.ep = 0
        self.nfile = 0

    def close(self):
        shutil.rmtree(self.dir, ignore_errors=True)

    def path(self, name):
        return os.path.join(self.dir, "ep%d_%s.skf" % (self.ep, name))

    def reset(self):
        self.ep += 1
        self.events.append({"ev": "reset", "ep": self.ep, "stateful": True})

    def emit(self, ev, ctx, **kw):
        e = {"ev": ev, "ep": self.ep, "ctx": ctx, "stateful": True}
        e.update(kw)
        self.events.append(e)
        return e

    def nk(self, name):
        rc, so, se = vlib.ska_cli(["nk", "--full-info", self.path(name)])
        if rc != 0:
            return None
        return vlib.parse_nk(so.decode())

    # ---- mutating commands ---------------------------------------------------------
    def build(self, out, samples, names, k, rc, threads=1, gz=False):
        """samples: list of list of str records."""
        self.nfile += 1
        fl = os.path.join(self.dir, "list%d.txt" % self.nfile)
        with open(fl, "w") as f:
            for i, (s, nm) in enumerate(zip(samples, names)):
                fa = os.path.join(self.dir, "in%d_%d.fa%s" % (self.nfile, i, ".gz" if gz else ""))
                if len(s) >= 2 and zlib.crc32(nm.encode()) % 3 == 0:
                    # a sample kept as two FASTA files (one list line with two paths): its records are those of both files
                    fb = os.path.join(self.dir, "in%d_%d_b.fa%s" % (self.nfile, i, ".gz" if gz else ""))
                    cut = (len(s) + 1) // 2
                    vlib.write_fasta(fa, s[:cut], gz=gz)
                    vlib.write_fasta(fb, s[cut:], gz=gz)
                    f.write("%s\t%s\t%s\n" % (nm, fa, fb))
                    continue
                vlib.write_fasta(fa, s, gz=gz, names=["contig %d" % (j + 1) for j in range(len(s))] if zlib.crc32(nm.encode()) % 2 else None)
                f.write("%s\t%s\n" % (nm, fa))
        args = ["build", "-o", self.path(out)[:-4], "-k", str(k), "-f", fl, "--threads", str(threads)]
        if not rc:
            args.append("--single-strand")
        if os.path.exists(self.path(out)):
            os.remove(self.path(out))
        rcode, so, se = vlib.ska_cli(args)
        ctx = {"out": out, "samples": [[b(r) for r in s] for s in samples], "names": names, "k": k, "rc": rc}
        ok = rcode == 0 and os.path.exists(self.path(out))
        if ok:
            return self.emit("build", ctx, ok=True, table=self.nk(out))
        return self.emit("build", ctx, ok=False, err=se.decode(errors="replace")[-200:])

    def import_table(self, out, k, rc, names, rows, w=None):
        w = w or (64 if k <= 31 else 128)
        t = {"k": k, "rc": rc, "names": names, "rows": rows}
        evs = vlib.skav("exec", [{"op": "tbl", "w": w, "table": t, "steps": [{"do": "save", "path": self.path(out)}]}])
        if evs[0].get("panic"):
            raise vlib.ToolError("import_table failed: " + evs[0]["panic"])
        return self.emit("import", {"out": out, "table": t}, table=self.nk(out))

    def merge(self, ins, out, extra=None):
        if os.path.exists(self.path(out)):
            os.remove(self.path(out))
        rcode, so, se = vlib.ska_cli(["merge"] + [self.path(i) for i in ins] + ["-o", self.path(out)[:-4]])
        exists = os.path.exists(self.path(out))
        ctx = {"ins": ins, "out": out}
        if extra:
            ctx.update(extra)
        if rcode == 0 and exists:
            return self.emit("merge", ctx, ok=True, out_exists=True, table=self.nk(out))
        return self.emit("merge", ctx, ok=False, out_exists=exists, err=se.decode(errors="replace")[-200:])

    def delete(self, file, names, via="args", out=None, extra=None):
        outn = out or file
        args = ["delete", "-s", self.path(file)]
        if out:
            args += ["-o", self.path(out)]
        if via == "file":
            self.nfile += 1
            nf = os.path.join(self.dir, "names%d.txt" % self.nfile)
            # one name per line; blank and whitespace-only lines (also the first line) carry no name
            lines = []
            for j, n in enumerate(names):
                if (self.nfile + j) % 3 == 0:
                    lines.append("" if j % 2 else "   ")
                lines.append(n)
            text = "".join(x + "\n" for x in lines)
            if self.nfile % 2 == 1:
                text = text[:-1]            # the last line of every second names file has no line end
            open(nf, "w").write(text)
            args += ["-f", nf]
        else:
            args += names
        rcode, so, se = vlib.ska_cli(args)
        ctx = {"file": file, "out": outn, "names": names, "via": via}
        if extra:
            ctx.update(extra)
        if rcode == 0:
            return self.emit("delete", ctx, ok=True, table=self.nk(outn))
        # refused: report the content of the input file (must be unchanged)
        t = self.nk(file)
        if t is None:
            return self.emit("delete", ctx, ok=False, table={"k": 0, "rc": False, "names": [], "rows": [], "nsk": [], "ksize": -1},
                             err="input file unreadable after refusal")
        return self.emit("delete", ctx, ok=False, table=t, err=se.decode(errors="replace")[-200:])

    def weed(self, file, weed_recs, reverse, minf, filt, am, mask, nogap, out=None):
        outn = out or file
        args = ["weed", self.path(file)]
        useweed = weed_recs is not None
        if useweed:
            self.nfile += 1
            wf = os.path.join(self.dir, "weed%d.fa" % self.nfile)
            # every second weed file: all records share the identifier up to the first blank ("mge 1", "mge 2", ...), as in
            # files whose headers are an accession followed by a description
            vlib.write_fasta(wf, weed_recs, names=["mge %d" % (j + 1) for j in range(len(weed_recs))] if self.nfile % 2 else None)
            args.append(wf)
        if out:
            args += ["-o", self.path(out)]
        if reverse:
            args.append("--reverse")
        args += ["--min-freq", fstr(minf), "--filter", filt]
        if am:
            args.append("--filter-ambig-as-missing")
        if mask:
            args.append("--ambig-mask")
        if nogap:
            args.append("--no-gap-only-sites")
        rcode, so, se = vlib.ska_cli(args)
        ctx = {"file": file, "out": outn, "useweed": useweed, "weed": [b(r) for r in (weed_recs or [])], "reverse": reverse,
               "minf": minf, "filter": filt, "am": am, "mask": mask, "nogap": nogap}
        if rcode == 0:
            return self.emit("weed", ctx, ok=True, table=self.nk(outn))
        return self.emit("weed", ctx, ok=False, err=se.decode(errors="replace")[-200:])

    def load_event(self, file):
        """Both library loaders on the saved file + the k_bits the file reports (C09)."""
        ev = vlib.skav("exec", [{"op": "load", "path": self.path(file)}])[0]
        t = self.nk(file)
        return self.emit("load", {"file": file}, as64=ev["as64"], as128=ev["as128"], k_bits=(t or {}).get("k_bits", 0))

    # ---- observing commands -----------------------------------------------------------
    def nk_event(self, file):
        t = self.nk(file)
        if t is None:
            return self.emit("nk", {"file": file}, table={"k": 0, "rc": False, "names": [], "rows": [], "nsk": [], "ksize": -1})
        return self.emit("nk", {"file": file}, table=t)

    def run_out(self, args):
        """Run a command whose result goes to stdout or, every third time, to `-o FILE` - always the same FILE, so that it
        already exists with the (usually longer or shorter) result of an earlier command: the new result must replace it."""
        self.nout = getattr(self, "nout", 0) + 1
        if self.nout % 3 != 0:
            return vlib.ska_cli(args)
        path = os.path.join(self.dir, "result_of_dash_o.txt")
        rcode, so, se = vlib.ska_cli(list(args) + ["-o", path])
        if rcode == 0 and os.path.exists(path):
            so = open(path, "rb").read()
        return rcode, so, se

    def align(self, file, n, minf, filt, am, mask, nogap, threads=1, minf_text=None):
        """minf_text: the --min-freq value as typed (any number of decimals, e.g. repr(2/3)); the event then carries the small
        rational (t - 1/2)/n with t = ceil(n x value) computed exactly - the same threshold, in integers TLC can hold."""
        fp_differs = fp_ceil_differs(n, minf) if minf_text is None else False
        if minf_text is not None:
            exact = fractions.Fraction(minf_text)
            t = -((-n * exact.numerator) // exact.denominator)
            minf = [0, 1] if t <= 0 else [2 * t - 1, 2 * n]
            fp_differs = math.ceil(n * float(minf_text)) != t
            if fp_differs:
                return None         # the double product rounds across an integer: exact and f64 ceilings differ, not decided here
        args = ["align", self.path(file), "--min-freq", minf_text or fstr(minf), "--filter", filt, "--threads", str(threads)]
        if am:
            args.append("--filter-ambig-as-missing")
        if mask:
            args.append("--ambig-mask")
        if nogap:
            args.append("--no-gap-only-sites")
        rcode, so, se = self.run_out(args)
        ctx = {"file": file, "minf": minf, "filter": filt, "am": am, "mask": mask, "nogap": nogap,
               "fp_ceil_differs": fp_differs, "minf_text": minf_text or ""}
        if rcode != 0:
            return self.emit("align", ctx, ok=False, names=[], seqs=[], err=se.decode(errors="replace")[-200:])
        names, seqs = vlib.parse_fasta_text(so.decode())
        return self.emit("align", ctx, ok=True, names=names, seqs=[b(s) for s in seqs])

    def distance(self, file, n, minf, allow_ambig=False, threads=1, default_minf=False):
        args = ["distance", self.path(file), "--min-freq", fstr(minf), "--threads", str(threads)]
        if default_minf:
            # --min-freq left out: the documented default of `ska distance` is 0 (every k-mer counts)
            assert minf[0] == 0
            args = ["distance", self.path(file), "--threads", str(threads)]
        if allow_ambig:
            args.append("--allow-ambiguous")
        rcode, so, se = self.run_out(args)
        ctx = {"file": file, "minf": minf, "allow_ambig": allow_ambig, "threads": threads,
               "fp_ceil_differs": fp_ceil_differs(n, minf), "default_minf": default_minf}
        if rcode != 0:
            return self.emit("distance", ctx, ok=False, rows=[], err=se.decode(errors="replace")[-200:])
        rows = []
        for line in so.decode().splitlines()[1:]:
            if not line.strip():
                continue
            if len(line.split("\t")) != 4:
                rows.append(["<malformed line>", line[:40], -1, -1])      # data: a line that is not a pair record
                continue
            a, c, d, m = line.split("\t")
            # NaN / inf are data (never a valid distance or proportion): recorded as -1
            def fin(x, sc):
                try:
                    v = float(x)
                except ValueError:
                    return -1
                return int(round(v * sc)) if v == v and abs(v) != float("inf") else -1
            rows.append([a, c, fin(d, 100), fin(m, 100000)])
        return self.emit("distance", ctx, ok=True, rows=rows)
