"""Input generators shared by the drivers (all seeded through a random.Random)."""
import random
from vlib import revcomp

ALLK = list(range(5, 64, 2))
BASES = "ACGT"


def rand_seq(rng, n, alphabet=BASES):
    return "".join(rng.choice(alphabet) for _ in range(n))


def mutate_case(rng, s, p=0.3):
    mode = rng.random()
    if mode < 0.4:
        return s
    if mode < 0.5:
        return s.lower()
    # random stretches of lower case
    out, i = [], 0
    while i < len(s):
        ln = rng.randint(1, max(1, len(s) // 3))
        seg = s[i:i + ln]
        out.append(seg.lower() if rng.random() < p else seg)
        i += ln
    return "".join(out)


def plant_ns(rng, s, k):
    """Place N/n (runs) at the distances the property calls out."""
    s = list(s)
    n = len(s)
    if n == 0:
        return ""
    nplant = rng.choice([0, 0, 1, 1, 2, 3])
    for _ in range(nplant):
        d = rng.choice([0, 1, k - 1, k, k + 1, k + 2, rng.randint(0, n)])
        pos = d if rng.random() < 0.5 else n - 1 - d
        run = rng.choice([1, 1, 1, 2, 3, k])
        for j in range(run):
            if 0 <= pos + j < n:
                s[pos + j] = rng.choice("Nn")
        if rng.random() < 0.4:
            # a second N at a called-out distance from the first
            d2 = rng.choice([1, k - 1, k, k + 1, k + 2])
            if 0 <= pos + d2 < n:
                s[pos + d2] = "N"
    return "".join(s)


def selfrc_window(rng, k):
    """A k-mer whose arms are their own reverse complement (middle base free)."""
    h = (k - 1) // 2
    up = rand_seq(rng, h)
    return up + rng.choice(BASES) + revcomp(up)


def record_set(rng, k, small=False):
    """1-4 records stressing window bounds, N placement, repeats, self-RC arms, case."""
    nrec = rng.choice([1, 1, 2, 2, 3, 4])
    recs = []
    for _ in range(nrec):
        choice = rng.random()
        if choice < 0.35:
            n = rng.choice([k - 2, k - 1, k, k, k + 1, k + 2])
        elif choice < 0.6:
            n = rng.choice([2 * k, 3 * k - 1, 3 * k + 1, k + 3, k + 5])
        else:
            n = rng.randint(2 * k, 60) if small and 2 * k < 60 else rng.randint(150, 400)
            if small:
                n = min(n, 4 * k)
        n = max(n, 0)
        s = rand_seq(rng, n)
        # planted repeat with 1-3 different middle bases, in both orientations
        if n >= 3 * k and rng.random() < 0.6:
            h = (k - 1) // 2
            up, lo = rand_seq(rng, h), rand_seq(rng, h)
            mids = rng.sample(BASES, rng.choice([1, 2, 3, 3]))
            s = list(s)
            slots = list(range(0, n - k, k + 1))
            rng.shuffle(slots)
            for m, at in zip(mids * 2, slots):
                w = up + m + lo
                if rng.random() < 0.5:
                    w = revcomp(w)
                s[at:at + k] = list(w)
            s = "".join(s)[:n]
        if n >= k and rng.random() < 0.35:
            w = selfrc_window(rng, k)
            at = rng.randint(0, n - k)
            s = s[:at] + w + s[at + k:]
            if rng.random() < 0.5 and n >= 2 * k + 1:
                # the same arms again with another middle base (W/S/N handling)
                w2 = w[:(k - 1) // 2] + rng.choice(BASES) + w[(k - 1) // 2 + 1:]
                at2 = rng.choice([a for a in range(0, n - k + 1) if abs(a - at) > k] or [at])
                s = s[:at2] + w2 + s[at2 + k:]
        if n >= k + 1 and rng.random() < 0.25:
            # low-complexity stretch: runs of one base meeting another run (consecutive windows share BOTH arms and differ
            # only in the middle base), a run longer than k (the same k-mer in consecutive windows), a dinucleotide repeat
            h = (k - 1) // 2
            x, y = rng.sample(BASES, 2)
            kind = rng.random()
            if kind < 0.5:
                lc = x * (h + rng.choice([1, 1, 2])) + y * (h + rng.choice([1, 1, 2]))
            elif kind < 0.75:
                lc = x * (k + rng.choice([1, 2, 5]))
            else:
                lc = (x + y) * ((k + 3) // 2 + 1)
            lc = lc[:n]
            at = rng.randint(0, n - len(lc))
            s = s[:at] + lc + s[at + len(lc):]
        s = plant_ns(rng, s, k)
        s = mutate_case(rng, s)
        recs.append(s)
    if all(len(r) == 0 for r in recs):
        recs[0] = rand_seq(rng, k)
    # a record without any base (a header directly followed by the next header), anywhere in the file
    if rng.random() < 0.15:
        recs.insert(rng.randrange(len(recs) + 1), "")
    return recs


def related_samples(rng, k, nsamp, length=None, snp_rate=0.02):
    """Samples sharing ancestry so their k-mers overlap partially (C07/C08/C10/C13...)."""
    length = length or rng.randint(3 * k, 6 * k + 40)
    anc = rand_seq(rng, length)
    if rng.random() < 0.3 and length >= 2 * k + 6:
        # a run of one base longer than k: the all-A split k-mer (the number 0 in the packed encoding; all-T is the same
        # k-mer with both strands) is present in every derived sample
        at = rng.randint(0, length - (k + 3))
        anc = anc[:at] + rng.choice("AT") * (k + 2) + anc[at + k + 2:]
    out = []
    for _ in range(nsamp):
        s = list(anc)
        for i in range(len(s)):
            if rng.random() < snp_rate:
                s[i] = rng.choice(BASES)
        s = "".join(s)
        if rng.random() < 0.3:
            cut = rng.randint(k, len(s))
            s = s[:cut]
        if rng.random() < 0.3:
            s = revcomp(s)
        recs = [s]
        if rng.random() < 0.3 and len(s) > 2 * k + 2:
            cut = rng.randint(k + 1, len(s) - k - 1)
            recs = [s[:cut], s[cut:]]
        if rng.random() < 0.2:
            recs[0] = plant_ns(rng, recs[0], k)
        out.append(recs)
    return out


def random_table(rng, k, nsamp, nrows, alphabet="ACGT-", ambig=""):
    """An explicit table: distinct random k-mers, random bases; rows never all-gap."""
    rows, seen = [], set()
    letters = alphabet + ambig
    nrows = min(nrows, 4 ** (k - 1) * 3 // 4)        # there are only 4^(k-1) split k-mers (256 for k=5)
    while len(rows) < nrows:
        km = tuple(rng.randint(0, 3) for _ in range(k - 1))
        if km in seen:
            continue
        seen.add(km)
        bases = [ord(rng.choice(letters)) for _ in range(nsamp)]
        if all(b == 45 for b in bases):
            bases[rng.randrange(nsamp)] = ord(rng.choice("ACGT"))
        rows.append([list(km), bases])
    rows.sort()
    return rows
