"""Replays MC_Ska REPLAY lines (histories of file operations) through the real CLI."""
import json, concurrent.futures
import vlib, skacli


def key_rows(rows):
    return sorted(json.dumps(r) for r in rows)


def replay_one(args):
    idx, beh = args
    sb = skacli.Sandbox("hist%d" % idx)
    try:
        pool = beh["pool"]
        S = [[bytes(r).decode() for r in s] for s in pool["s"]]
        W = [[bytes(r).decode() for r in w] for w in pool["w"]]
        sb.reset()
        ea = sb.build("a", [S[0], S[1]], ["s1", "s2"], 5, True)
        eb = sb.build("b", [S[2], S[3]], ["s3", "s4"], 5, True)
        if not (ea.get("ok") and eb.get("ok")):
            return {"ok": False, "why": "initial build failed", "step": -1}
        em = sb.merge(["a", "b"], "m")
        if not em.get("ok"):
            return {"ok": False, "why": "initial merge failed", "step": -1, "event": em}
        for si, h in enumerate(beh["hist"]):
            op, f = h["op"], h["file"]
            if op["do"] == "merge":
                e = sb.merge(op["ins"], "n")
            elif op["do"] == "delete":
                e = sb.delete(f, op["names"], via="file" if (idx + si) % 2 else "args")
            else:
                o = op["opts"]
                e = sb.weed(f, W[op["weed"] - 1] if op["weed"] else None, op["reverse"], [o["minf"] * 500, 1000],
                            o["filter"], o["ambigMissing"], o["ambigMask"], o["noGapOnly"])
            if not e.get("ok"):
                return {"ok": False, "why": "command failed: " + e.get("err", ""), "step": si, "event": e}
            t = e["table"]
            if t is None or t["names"] != h["after"]["names"] or key_rows(t["rows"]) != key_rows(h["after"]["rows"]):
                return {"ok": False, "why": "table after step %d (%s) differs" % (si, op["do"]), "step": si,
                        "expected": h["after"], "actual": t}
        n = beh["n"]
        last = beh["last"]
        for p in beh["probes"]:
            if p["thr"] > n:
                continue
            minf = [(1000 * p["thr"]) // n, 1000]
            e = sb.align(last, n, minf, p["filter"], p["am"], False, False)
            if not e.get("ok"):
                if not p["cols"] and not beh["hist"]:
                    continue
                # an alignment with zero columns is still a successful run
                return {"ok": False, "why": "align failed: " + e.get("err", ""), "step": "probe", "probe": p}
            seqs = e["seqs"]
            ncol = len(seqs[0]) if seqs else 0
            cols = sorted(json.dumps([s[j] for s in seqs]) for j in range(ncol))
            want = sorted(json.dumps(c) for c in p["cols"])
            if cols != want:
                return {"ok": False, "why": "align probe differs", "step": "probe", "probe": p, "actual": cols}
        return {"ok": True}
    finally:
        sb.close()


def replay_all(behs, jobs=12):
    with concurrent.futures.ThreadPoolExecutor(max_workers=jobs) as ex:
        return list(ex.map(replay_one, list(enumerate(behs))))
