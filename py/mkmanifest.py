#!/usr/bin/env python3
"""Regenerates /verif/MANIFEST.json from the table below (keeps the file valid at all times)."""
import json, os
VERIF = os.path.dirname(os.path.dirname(os.path.abspath(__file__)))
props = [json.loads(l) for l in open(os.path.join(VERIF, "properties.jsonl"))]
ids = [p["id"] for p in props]

CLAIMED = {}
def claim(pid, text, note, technique, ref):
    CLAIMED[pid] = dict(text=text, note=note, technique=technique, ref=ref)

exec(open(os.path.join(VERIF, "py", "claims.py")).read())

checks, na = [], []
for pid in ids:
    if pid in CLAIMED:
        c = CLAIMED[pid]
        checks.append({
            "property_id": pid,
            "quick_cmd": "bin/check %s --tier quick" % pid,
            "thorough_cmd": "bin/check %s --tier thorough" % pid,
            "evidence_file": "evidence/%s.json" % pid,
            "replay_cmd_template": "bin/check %s --replay {path}" % pid,
            "engine": "tla-tlc",
            "level_claimed": {"category": "model_checking", "text": c["text"], "design_ref": c["ref"]},
            "level_note": c["note"],
            "technique": c["technique"],
        })
    else:
        na.append({"property_id": pid, "reason": "check not built yet in this round (planned: DESIGN.md section 4); no verdict is claimed"})

m = {
    "version": 1,
    "setup_cmd": "bin/setup",
    "hooks": {
        "guard": "cargo feature verif-hooks (crate ska)",
        "enable": "the harness crate /verif/harness depends on ska = {path=/repo, features=[verif-hooks]}; bin/setup and every check run `cargo build --release --offline` there (target dir /verif/target), which rebuilds skav and the hooked ska CLI from /repo's working tree",
        "baseline_off_cmd": "cd /repo && cargo test --workspace --no-fail-fast --offline",
        "source_commits": json.load(open(os.path.join(VERIF, "py", "hook_commits.json"))),
        "add_only": True,
    },
    "engines": [{"name": "tla-tlc", "path": "spec/", "serves_properties": sorted(CLAIMED),
                 "kind_free_text": "explicit TLA+ specification (spec/*.tla), TLC design-level model checking (spec/mc), TLC-generated behaviours replayed into the real code (harness `skav replay`) and recorded executions validated by TLC trace specifications (spec/trace)"}],
    "checks": checks,
    "not_applicable": na,
    "notes": "bin/check <ID> --tier quick|thorough; exit 0 held / 1 VIOLATION / 2 tool error. known_findings.json lists fixed and known defects.",
}
json.dump(m, open(os.path.join(VERIF, "MANIFEST.json"), "w"), indent=1)
print("claimed", sorted(CLAIMED), "n/a", [x["property_id"] for x in na])
