//! `skav exec`: one op in, one event out.  Every event echoes the op's `ctx`
//! (inputs the Python driver wants TLC to see next to the observed result).

use crate::util::*;
use hashbrown::HashMap;
use serde_json::{json, Map, Value};
use ska::merge_ska_array::MergeSkaArray;
use ska::merge_ska_dict::MergeSkaDict;
use ska::ska_dict::bit_encoding::{
    base_to_prob, decode_kmer, encode_base, is_ambiguous, UInt, IUPAC, RC_IUPAC,
};
use ska::ska_dict::bloom_filter::KmerFilter;
use ska::ska_dict::split_kmer::SplitKmer;
use ska::ska_dict::SkaDict;
use ska::ska_ref::aln_writer::AlnWriter;
use ska::ska_ref::idx_check::IdxCheck;
use ska::ska_ref::RefSka;
use ska::QualOpts;
use std::borrow::Cow;
use std::cmp::Ordering;

macro_rules! by_width {
    ($w:expr, $f:ident, $($arg:expr),*) => {
        if $w == 64 { $f::<u64>($($arg),*) } else { $f::<u128>($($arg),*) }
    };
}

/// Inputs live in `ctx` (echoed into the event so TLC sees them) or at top level.
fn par<'a>(op: &'a Value, key: &str) -> &'a Value {
    if !op["ctx"][key].is_null() {
        &op["ctx"][key]
    } else {
        &op[key]
    }
}

pub fn exec(op: &Value) -> Value {
    let name = str_of(op, "op").to_string();
    let w = op["w"].as_u64().unwrap_or(64);
    let res: Result<Value, String> = guarded(|| match name.as_str() {
        "iter" => by_width!(w, op_iter, op),
        "dict" => by_width!(w, op_dict, op),
        "filter_seq" => by_width!(w, op_filter_seq, op),
        "prim" => by_width!(w, op_prim, op),
        "hash" => op_hash(op),
        "tbl" => by_width!(w, op_tbl, op),
        "load" => op_load(op),
        "distcmd" => by_width!(w, op_distcmd, op),
        "aln" => op_aln(op),
        "idx" => op_idx(op),
        "ref" => by_width!(w, op_ref, op),
        "map" => by_width!(w, op_map, op),
        "buildmerge" => by_width!(w, op_buildmerge, op),
        "cov" => op_cov(op),
        _ => json!({"error": format!("unknown op {name}")}),
    });
    let mut ev = Map::new();
    ev.insert("ev".into(), json!(name));
    for key in ["id", "ep", "ctx", "w"] {
        if !op[key].is_null() {
            ev.insert(key.into(), op[key].clone());
        }
    }
    match res {
        Ok(Value::Object(m)) => {
            for (k, v) in m {
                ev.insert(k, v);
            }
            if !ev.contains_key("panic") {
                ev.insert("panic".into(), json!(""));
            }
        }
        Ok(other) => {
            ev.insert("out".into(), other);
            ev.insert("panic".into(), json!(""));
        }
        Err(msg) => {
            ev.insert("panic".into(), json!(if msg.is_empty() { "panic".to_string() } else { msg }));
        }
    }
    Value::Object(ev)
}

// ---------------------------------------------------------------------------
// iter: step the real SplitKmer over one record
// ---------------------------------------------------------------------------
fn op_iter<IntT: for<'a> UInt<'a>>(op: &Value) -> Value {
    let seq = bytes_of(par(op, "seq"));
    let qv = par(op, "qual");
    let qual_v = if qv.is_null() || qv.as_array().map(|a| a.is_empty()).unwrap_or(false) {
        None
    } else {
        Some(bytes_of(qv))
    };
    let k = par(op, "k").as_u64().unwrap() as usize;
    let rc = par(op, "rc").as_bool().unwrap_or(false);
    let minq = par(op, "minq").as_u64().unwrap_or(0) as u8;
    let qf = qual_filter_of(par(op, "qf").as_str().unwrap_or("none"));
    let reads = par(op, "reads").as_bool().unwrap_or(false);
    let it = SplitKmer::<IntT>::new(
        Cow::Borrowed(&seq[..]),
        seq.len(),
        qual_v.as_deref(),
        k,
        rc,
        minq,
        qf,
        reads,
    );
    let mut steps: Vec<Value> = Vec::new();
    if let Some(mut it) = it {
        let mut cur = Some(it.get_curr_kmer());
        while let Some((kmer, mid, isrc)) = cur {
            let pal = it.self_palindrome();
            let mut s = json!({
                "pos": it.get_middle_pos(),
                "km": digits(kmer, k - 1),
                "mid": mid,
                "isrc": isrc,
                "pal": pal,
                "mq": it.middle_base_qual(),
            });
            if reads {
                s["h"] = u64_halves(it.get_hash());
                let p = it.get_middle_pos();
                let start = p - (k - 1) / 2;
                let w = &seq[start..start + k];
                if let Some(fresh) = SplitKmer::<IntT>::new(Cow::Borrowed(w), k, None, k, rc, 0, ska::QualFilter::NoFilter, true) {
                    s["hs"] = u64_halves(fresh.get_hash());
                }
            }
            steps.push(s);
            cur = it.get_next_kmer();
        }
        json!({"none": false, "steps": steps})
    } else {
        json!({"none": true, "steps": steps})
    }
}

// ---------------------------------------------------------------------------
// dict: SkaDict::new on files written by the driver
// ---------------------------------------------------------------------------
fn dict_proj<IntT: for<'a> UInt<'a>>(k: usize, d: &hashbrown::HashMap<IntT, u8>) -> Value {
    let mut v: Vec<(Vec<u8>, u8)> = d.iter().map(|(km, b)| (digits(*km, k - 1), *b)).collect();
    v.sort();
    Value::Array(v.into_iter().map(|(km, b)| json!([km, b])).collect())
}

fn op_dict<IntT: for<'a> UInt<'a>>(op: &Value) -> Value {
    let k = par(op, "k").as_u64().unwrap() as usize;
    let rc = par(op, "rc").as_bool().unwrap_or(false);
    let files: Vec<String> = op["files"]
        .as_array()
        .unwrap()
        .iter()
        .map(|x| x.as_str().unwrap().to_string())
        .collect();
    let qual = QualOpts {
        min_count: par(op, "minc").as_u64().unwrap_or(1) as u16,
        min_qual: par(op, "minq").as_u64().unwrap_or(0) as u8,
        qual_filter: qual_filter_of(par(op, "qf").as_str().unwrap_or("none")),
    };
    let second = files.get(1);
    let d = SkaDict::<IntT>::new(k, 0, (&files[0], second), "s", rc, &qual, None);
    json!({"dict": dict_proj(k, d.kmers()), "n": d.ksize()})
}

// ---------------------------------------------------------------------------
// filter_seq: the counting filter driven by a sequence of reads (public API only)
//   For each read, each window: Ordering result of KmerFilter::filter.
// ---------------------------------------------------------------------------
fn op_filter_seq<IntT: for<'a> UInt<'a>>(op: &Value) -> Value {
    let k = usize_of(op, "k");
    let rc = bool_of(op, "rc");
    let minc = op["minc"].as_u64().unwrap_or(1) as u16;
    let mut filt = KmerFilter::new(minc);
    filt.init();
    let mut out: Vec<Value> = Vec::new();
    for r in op["reads"].as_array().unwrap() {
        let seq = bytes_of(r);
        if let Some(mut it) = SplitKmer::<IntT>::new(
            Cow::Borrowed(&seq[..]),
            seq.len(),
            None,
            k,
            rc,
            0,
            ska::QualFilter::NoFilter,
            true,
        ) {
            loop {
                let ord = filt.filter(&it);
                let (kmer, mid, _isrc) = it.get_curr_kmer();
                out.push(json!({
                    "km": digits(kmer, k - 1), "mid": mid,
                    "h": u64_halves(it.get_hash()),
                    "ord": match ord { Ordering::Less => -1, Ordering::Equal => 0, Ordering::Greater => 1 },
                }));
                if it.get_next_kmer().is_none() {
                    break;
                }
            }
        }
    }
    json!({"obs": out})
}

// ---------------------------------------------------------------------------
// prim: packing / reverse complement / masks / decode on explicit k-mers (C16)
//   op: {k, kmers: [[bytes of a k-mer string of length n]], n}
// ---------------------------------------------------------------------------
fn op_prim<IntT: for<'a> UInt<'a>>(op: &Value) -> Value {
    let k = par(op, "k").as_u64().unwrap() as usize; // split k-mer size (odd)
    let mut res: Vec<Value> = Vec::new();
    let (lower_mask, upper_mask) = IntT::generate_masks(k);
    for km in par(op, "kmers").as_array().unwrap() {
        let s = bytes_of(km); // ASCII string of length n (any n <= digits of width)
        let n = s.len();
        let enc = IntT::encode_kmer(&s);
        let rcv = enc.rev_comp(n);
        let rcrc = rcv.rev_comp(n);
        let mut e = json!({
            "s": s,
            "enc": all_digits(enc),
            "rc": all_digits(rcv),
            "rcrc": all_digits(rcrc),
        });
        if n == k - 1 {
            let (u, l) = decode_kmer(k, enc, upper_mask, lower_mask);
            e["dec_u"] = json!(u.as_bytes());
            e["dec_l"] = json!(l.as_bytes());
        }
        if 2 * n < IntT::n_bits() as usize {
            e["skalo_dec"] = json!(IntT::skalo_decode_kmer(enc, n).as_bytes());
        }
        res.push(e);
    }
    json!({
        "k": k,
        "lower_mask": all_digits(lower_mask),
        "upper_mask": all_digits(upper_mask),
        "res": res,
    })
}

// hash: NtHash from scratch and rolled along a sequence (no N), both strands
/// Read hashes only through the public SplitKmer API (is_reads = true): `rolled` = hashes while
/// sliding along the sequence, `scratch` = hash of a fresh iterator built on each window alone.
fn hash_lists(seq: &[u8], k: usize, rc: bool) -> (Vec<Value>, Vec<Value>) {
    let mut rolled: Vec<Value> = Vec::new();
    let mut scratch: Vec<Value> = Vec::new();
    if seq.len() >= k {
        if let Some(mut it) = SplitKmer::<u128>::new(Cow::Borrowed(seq), seq.len(), None, k, rc, 0, ska::QualFilter::NoFilter, true) {
            loop {
                rolled.push(u64_halves(it.get_hash()));
                if it.get_next_kmer().is_none() {
                    break;
                }
            }
        }
        for i in 0..=(seq.len() - k) {
            let w = &seq[i..i + k];
            if let Some(it) = SplitKmer::<u128>::new(Cow::Borrowed(w), k, None, k, rc, 0, ska::QualFilter::NoFilter, true) {
                scratch.push(u64_halves(it.get_hash()));
            }
        }
    }
    (rolled, scratch)
}

fn op_hash(op: &Value) -> Value {
    let seq = bytes_of(par(op, "seq"));
    let rcseq = bytes_of(par(op, "rcseq"));
    let k = par(op, "k").as_u64().unwrap() as usize;
    let rc = par(op, "rc").as_bool().unwrap_or(false);
    let (rolled, scratch) = hash_lists(&seq, k, rc);
    let (rc_rolled, rc_scratch) = hash_lists(&rcseq, k, rc);
    json!({"rolled": rolled, "scratch": scratch, "rc_rolled": rc_rolled, "rc_scratch": rc_scratch})
}

// ---------------------------------------------------------------------------
// tables: complete dump for C15
// ---------------------------------------------------------------------------
pub fn tables() -> Vec<Value> {
    let mut evs = Vec::new();
    for new_base in 0..4usize {
        let row: Vec<u8> = (0..256).map(|e| IUPAC[new_base * 256 + e]).collect();
        evs.push(json!({"ev": "prim.iupac", "base": new_base, "row": row, "panic": ""}));
    }
    let rcrow: Vec<u8> = (0..256).map(|e| RC_IUPAC[e]).collect();
    evs.push(json!({"ev": "prim.rc", "row": rcrow, "panic": ""}));
    let amb: Vec<bool> = (0..256).map(|b| is_ambiguous(b as u8)).collect();
    evs.push(json!({"ev": "prim.ambig", "row": amb, "panic": ""}));
    // weights as round(6*w): 6,3,2,0 ; order of the vector is [A, C, T, G] = digit order
    let prob: Vec<Vec<i64>> = (0..256)
        .map(|b| base_to_prob(b as u8).iter().map(|p| if p.is_finite() { (p * 6.0).round() as i64 } else { -1 }).collect())
        .collect();
    evs.push(json!({"ev": "prim.prob", "row": prob, "panic": ""}));
    let enc: Vec<u8> = (0..256).map(|b| encode_base(b as u8)).collect();
    evs.push(json!({"ev": "prim.enc", "row": enc, "panic": ""}));
    evs
}

// ---------------------------------------------------------------------------
// tbl: explicit table -> MergeSkaArray, then a sequence of steps
// ---------------------------------------------------------------------------
pub fn array_from_json<IntT: for<'a> UInt<'a>>(t: &Value) -> MergeSkaArray<IntT> {
    let k = usize_of(t, "k");
    let rc = bool_of(t, "rc");
    let mut names: Vec<String> = t["names"]
        .as_array()
        .unwrap()
        .iter()
        .map(|x| x.as_str().unwrap().to_string())
        .collect();
    let n = names.len();
    let mut map: HashMap<IntT, Vec<u8>> = HashMap::new();
    for row in t["rows"].as_array().unwrap() {
        let km: IntT = pack(&bytes_of(&row[0]));
        map.insert(km, bytes_of(&row[1]));
    }
    let mut d = MergeSkaDict::<IntT>::new(k, n, rc);
    d.build_from_array(&mut names, &mut map);
    MergeSkaArray::new(&d)
}

pub fn array_proj<IntT: for<'a> UInt<'a>>(a: &MergeSkaArray<IntT>) -> Value {
    let k = a.kmer_len();
    let mut rows: Vec<(Vec<u8>, Vec<u8>)> = a.iter().map(|(km, v)| (digits(km, k - 1), v)).collect();
    rows.sort();
    json!({
        "k": k, "rc": a.rc(), "names": a.names(),
        "rows": rows.into_iter().map(|(km, v)| json!([km, v])).collect::<Vec<Value>>(),
        "nsk": a.n_sample_kmers(),
        "ksize": a.ksize(),
    })
}

fn parse_fasta(buf: &[u8]) -> Value {
    let mut names: Vec<String> = Vec::new();
    let mut seqs: Vec<Vec<u8>> = Vec::new();
    for line in buf.split(|b| *b == b'\n') {
        if line.is_empty() {
            continue;
        }
        if line[0] == b'>' {
            names.push(String::from_utf8_lossy(&line[1..]).to_string());
            seqs.push(Vec::new());
        } else if let Some(last) = seqs.last_mut() {
            last.extend_from_slice(line);
        }
    }
    json!({"names": names, "seqs": seqs})
}

fn op_tbl<IntT: for<'a> UInt<'a>>(op: &Value) -> Value {
    let mut arr: MergeSkaArray<IntT> = if op["table"].is_null() {
        MergeSkaArray::<IntT>::load(str_of(op, "load")).expect("load failed")
    } else {
        array_from_json(&op["table"])
    };
    let mut outs: Vec<Value> = Vec::new();
    for st in op["steps"].as_array().unwrap() {
        let what = str_of(st, "do");
        let r = guarded(|| match what {
            "proj" => array_proj(&arr),
            "counts" => json!({"counts": arr.verif_counts(), "ksize": arr.ksize()}),
            "filter" => {
                let removed = arr.filter(
                    usize_of(st, "min_count"),
                    bool_of(st, "ambig_missing"),
                    &filter_type_of(str_of(st, "filter")),
                    bool_of(st, "mask"),
                    bool_of(st, "nogap"),
                    bool_of(st, "update"),
                );
                json!({"removed": removed})
            }
            "apply_filters" => {
                let removed = ska::generic_modes::apply_filters(
                    &mut arr,
                    st["min_freq"].as_f64().unwrap(),
                    bool_of(st, "ambig_missing"),
                    &filter_type_of(str_of(st, "filter")),
                    bool_of(st, "mask"),
                    bool_of(st, "nogap"),
                );
                json!({"removed": removed})
            }
            "fasta" => {
                let mut buf: Vec<u8> = Vec::new();
                arr.write_fasta(&mut buf).expect("write_fasta");
                parse_fasta(&buf)
            }
            "delete" => {
                let names: Vec<String> = st["names"]
                    .as_array()
                    .unwrap()
                    .iter()
                    .map(|x| x.as_str().unwrap().to_string())
                    .collect();
                let refs: Vec<&str> = names.iter().map(|s| s.as_str()).collect();
                arr.delete_samples(&refs);
                json!({})
            }
            "weed" => {
                let r = RefSka::<IntT>::new(arr.kmer_len(), str_of(st, "file"), arr.rc(), false, false);
                arr.weed(&r, bool_of(st, "reverse"));
                json!({})
            }
            "save" => {
                arr.save(str_of(st, "path")).expect("save");
                json!({})
            }
            "reload" => {
                arr.save(str_of(st, "path")).expect("save");
                arr = MergeSkaArray::<IntT>::load(str_of(st, "path")).expect("reload");
                json!({})
            }
            "dist" => {
                let d = arr.distance(st["constant"].as_f64().unwrap_or(0.0));
                // (snps*100 rounded, mismatch*1e5 rounded)
                let v: Vec<Vec<Vec<i64>>> = d
                    .iter()
                    .map(|row| {
                        row.iter()
                            .map(|(a, b)| {
                                let fin = |x: f64, sc: f64| if x.is_finite() { (x * sc).round() as i64 } else { -1 };
                                vec![fin(*a, 100.0), fin(*b, 100000.0)]
                            })
                            .collect()
                    })
                    .collect();
                json!({"dist": v})
            }
            "todict_roundtrip" => {
                let d = arr.to_dict();
                arr = MergeSkaArray::new(&d);
                json!({})
            }
            _ => json!({"error": "unknown step"}),
        });
        match r {
            Ok(mut v) => {
                v["do"] = json!(what);
                v["panic"] = json!("");
                outs.push(v);
            }
            Err(m) => {
                outs.push(json!({"do": what, "panic": if m.is_empty() { "panic".into() } else { m }}));
                break;
            }
        }
    }
    json!({"outs": outs})
}

// distcmd: the whole `ska distance` pipeline in process (threads = 1), output parsed
fn op_distcmd<IntT: for<'a> UInt<'a>>(op: &Value) -> Value {
    let mut arr: MergeSkaArray<IntT> = array_from_json(&op["table"]);
    let path = format!(
        "{}/skav-dist-{}-{:?}.txt",
        if std::path::Path::new("/dev/shm").is_dir() { "/dev/shm" } else { "/tmp" },
        std::process::id(),
        std::thread::current().id()
    );
    ska::generic_modes::distance(
        &mut arr,
        &Some(path.clone()),
        op["min_freq"].as_f64().unwrap_or(0.0),
        bool_of(op, "filt_ambig"),
        1,
    );
    let text = std::fs::read_to_string(&path).unwrap_or_default();
    let _ = std::fs::remove_file(&path);
    let mut rows: Vec<Value> = Vec::new();
    for line in text.lines().skip(1) {
        let f: Vec<&str> = line.split('\t').collect();
        if f.len() == 4 {
            let d: f64 = f[2].parse().unwrap_or(-1.0);
            let m: f64 = f[3].parse().unwrap_or(-1.0);
            // NaN / inf are data, never a valid value: -1 (a cast would turn NaN into 0)
            let fin = |x: f64, sc: f64| if x.is_finite() { (x * sc).round() as i64 } else { -1 };
            rows.push(json!([f[0], f[1], fin(d, 100.0), fin(m, 100000.0)]));
        }
    }
    json!({"rows": rows})
}

// ---------------------------------------------------------------------------
// load: try both loaders on a file (C09 / C19)
// ---------------------------------------------------------------------------
pub fn try_load(path: &str, as_bits: u32) -> Value {
    let r = guarded(|| {
        if as_bits == 64 {
            MergeSkaArray::<u64>::load(path).map(|a| (array_proj(&a), a.verif_counts().to_vec())).map_err(|e| e.to_string())
        } else {
            MergeSkaArray::<u128>::load(path).map(|a| (array_proj(&a), a.verif_counts().to_vec())).map_err(|e| e.to_string())
        }
    });
    match r {
        // counts: the stored per-k-mer count column in file order (part of the decoded content)
        Ok(Ok((p, c))) => json!({"ok": true, "table": p, "counts": c}),
        Ok(Err(e)) => json!({"ok": false, "err": e}),
        Err(m) => json!({"ok": false, "err": format!("panic: {m}")}),
    }
}

fn op_load(op: &Value) -> Value {
    let path = str_of(op, "path");
    json!({"as64": try_load(path, 64), "as128": try_load(path, 128)})
}

// ---------------------------------------------------------------------------
// aln: step the real AlnWriter (C04)
//   op: {k, contigs:[[bytes]], repeats:[abs], mask_ambig, writes:[[pos, chrom, base]]}
// ---------------------------------------------------------------------------
fn op_aln(op: &Value) -> Value {
    let k = usize_of(op, "k");
    let contigs: Vec<Vec<u8>> = op["contigs"].as_array().unwrap().iter().map(bytes_of).collect();
    let repeats: Vec<usize> = op["repeats"]
        .as_array()
        .map(|a| a.iter().map(|x| x.as_u64().unwrap() as usize).collect())
        .unwrap_or_default();
    let mask = bool_of(op, "mask_ambig");
    let mut w = AlnWriter::new(&contigs, k, &repeats, mask);
    let mut states: Vec<Value> = Vec::new();
    for wr in op["writes"].as_array().unwrap() {
        let pos = wr[0].as_u64().unwrap() as usize;
        let chrom = wr[1].as_u64().unwrap() as usize;
        let base = wr[2].as_u64().unwrap() as u8;
        w.write_split_kmer(pos, chrom, base);
        states.push(json!(w.verif_state()));
    }
    w.finalise();
    states.push(json!(w.verif_state()));
    let total = w.total_size();
    let out = w.get_seq().to_vec();
    json!({"states": states, "out": out, "total": total})
}

// idx: IdxCheck iterator over contig lengths
fn op_idx(op: &Value) -> Value {
    let lens: Vec<usize> = op["lens"].as_array().unwrap().iter().map(|x| x.as_u64().unwrap() as usize).collect();
    let seqs: Vec<Vec<u8>> = lens.iter().map(|n| vec![b'A'; *n]).collect();
    let total: usize = lens.iter().sum();
    let idx = IdxCheck::new(&seqs);
    // The code zips the iterator with `total` alignment columns
    let got: Vec<(usize, usize)> = idx.iter().take(total).collect();
    json!({"pairs": got})
}

// ---------------------------------------------------------------------------
// ref: RefSka::new index + repeat coordinates (C04, C13)
// ---------------------------------------------------------------------------
fn op_ref<IntT: for<'a> UInt<'a>>(op: &Value) -> Value {
    let k = usize_of(op, "k");
    let r = RefSka::<IntT>::new(k, str_of(op, "file"), bool_of(op, "rc"), bool_of(op, "ambig_mask"), bool_of(op, "repeat_mask"));
    let idx: Vec<Value> = r
        .verif_index()
        .iter()
        .map(|rk| json!([digits(rk.kmer, k - 1), rk.base, rk.pos, rk.chrom, rk.rc]))
        .collect();
    json!({"index": idx, "repeats": r.verif_repeat_coors(), "ksize": r.ksize()})
}

// map: RefSka::new + map(table) + write_aln / write_vcf through the library
fn op_map<IntT: for<'a> UInt<'a>>(op: &Value) -> Value {
    let arr: MergeSkaArray<IntT> = array_from_json(&op["table"]);
    let k = arr.kmer_len();
    let mut r = RefSka::<IntT>::new(k, str_of(op, "file"), arr.rc(), bool_of(op, "ambig_mask"), bool_of(op, "repeat_mask"));
    let d = arr.to_dict();
    r.map(&d);
    let threads = op["threads"].as_u64().unwrap_or(1) as usize;
    let mut buf: Vec<u8> = Vec::new();
    r.write_aln(&mut buf, threads).expect("write_aln");
    let aln = parse_fasta(&buf);
    let mut vbuf: Vec<u8> = Vec::new();
    r.write_vcf(&mut vbuf, threads).expect("write_vcf");
    json!({"aln": aln, "vcf": String::from_utf8_lossy(&vbuf), "mapped_pos": r.verif_mapped_pos()})
}

// buildmerge: build_and_merge over FASTA files with a thread count (C11 partition replay)
fn op_buildmerge<IntT: for<'a> UInt<'a>>(op: &Value) -> Value {
    let k = usize_of(op, "k");
    let rc = bool_of(op, "rc");
    let threads = usize_of(op, "threads");
    let files: Vec<ska::merge_ska_dict::InputFastx> = op["files"]
        .as_array()
        .unwrap()
        .iter()
        .map(|x| (x[0].as_str().unwrap().to_string(), x[1].as_str().unwrap().to_string(), None))
        .collect();
    let qual = QualOpts { min_count: 1, min_qual: 0, qual_filter: ska::QualFilter::NoFilter };
    let d = ska::merge_ska_dict::build_and_merge::<IntT>(&files, k, rc, &qual, threads, None);
    let a = MergeSkaArray::new(&d);
    array_proj(&a)
}

// ---------------------------------------------------------------------------
// cov: hooked likelihood / gradient / cutoff (C20)
// ---------------------------------------------------------------------------
fn op_cov(op: &Value) -> Value {
    use ska::coverage::verif as cv;
    let what = str_of(op, "what");
    match what {
        "ll" => {
            let pars: Vec<f64> = op["pars"].as_array().unwrap().iter().map(|x| x.as_f64().unwrap()).collect();
            let counts: Vec<f64> = op["counts"].as_array().unwrap().iter().map(|x| x.as_f64().unwrap()).collect();
            json!({"ll": cv::log_likelihood(&pars, &counts), "grad": cv::grad_ll(&pars, &counts)})
        }
        "cutoff" => {
            let pars: Vec<f64> = op["pars"].as_array().unwrap().iter().map(|x| x.as_f64().unwrap()).collect();
            json!({"cutoff": cv::find_cutoff(&pars, usize_of(op, "max"))})
        }
        "fit" => {
            let k = usize_of(op, "k");
            let rc = bool_of(op, "rc");
            let f1 = str_of(op, "f1").to_string();
            let f2 = str_of(op, "f2").to_string();
            if k <= 31 {
                cov_fit::<u64>(&f1, &f2, k, rc)
            } else {
                cov_fit::<u128>(&f1, &f2, k, rc)
            }
        }
        _ => json!({"error": "unknown cov op"}),
    }
}

fn cov_fit<IntT: for<'a> UInt<'a>>(f1: &String, f2: &String, k: usize, rc: bool) -> Value {
    let mut cov = ska::coverage::CoverageHistogram::<IntT>::new(f1, f2, k, rc, false);
    let res = cov.fit_histogram();
    let (w0, c, cutoff, counts) = cov.verif_fit();
    match res {
        Ok(cut) => json!({"converged": true, "cutoff_ret": cut, "w0": w0, "c": c, "cutoff": cutoff, "counts": counts}),
        Err(e) => json!({"converged": false, "err": e.to_string(), "counts": counts}),
    }
}
