//! Projection helpers: packed integers -> base-4 digit arrays, panic capture, JSON access.

use serde_json::{json, Value};
use ska::ska_dict::bit_encoding::UInt;
use std::panic::{catch_unwind, AssertUnwindSafe};

/// The `n` lowest base-4 digits of a packed value, most significant first.
pub fn digits<IntT: for<'a> UInt<'a>>(x: IntT, n: usize) -> Vec<u8> {
    let three = IntT::from_encoded_base(3);
    (0..n)
        .rev()
        .map(|i| ((x >> (2 * i)) & three).as_u8())
        .collect()
}

/// All base-4 digits of the full machine word, most significant first (32 or 64 digits).
pub fn all_digits<IntT: for<'a> UInt<'a>>(x: IntT) -> Vec<u8> {
    digits(x, (IntT::n_bits() / 2) as usize)
}

/// Pack base-4 digits (most significant first).
pub fn pack<IntT: for<'a> UInt<'a>>(d: &[u8]) -> IntT {
    let mut x = IntT::zero_init();
    for v in d {
        x = (x << 2usize) | IntT::from_encoded_base(*v);
    }
    x
}

pub fn u64_halves(x: u64) -> Value {
    json!([(x >> 32) as u32, (x & 0xFFFF_FFFF) as u32])
}

/// Run `f`, turning a panic into Err(message).
pub fn guarded<T>(f: impl FnOnce() -> T) -> Result<T, String> {
    match catch_unwind(AssertUnwindSafe(f)) {
        Ok(v) => Ok(v),
        Err(e) => {
            let msg = if let Some(s) = e.downcast_ref::<&str>() {
                s.to_string()
            } else if let Some(s) = e.downcast_ref::<String>() {
                s.clone()
            } else {
                "panic".to_string()
            };
            Err(msg)
        }
    }
}

pub fn bytes_of(v: &Value) -> Vec<u8> {
    match v {
        Value::Array(a) => a.iter().map(|x| x.as_u64().unwrap() as u8).collect(),
        Value::String(s) => s.as_bytes().to_vec(),
        _ => Vec::new(),
    }
}

pub fn usize_of(v: &Value, key: &str) -> usize {
    v[key].as_u64().unwrap_or_else(|| panic!("missing integer field {key}")) as usize
}

pub fn bool_of(v: &Value, key: &str) -> bool {
    v[key].as_bool().unwrap_or(false)
}

pub fn str_of<'a>(v: &'a Value, key: &str) -> &'a str {
    v[key].as_str().unwrap_or("")
}

pub fn qual_filter_of(s: &str) -> ska::QualFilter {
    match s {
        "middle" => ska::QualFilter::Middle,
        "strict" => ska::QualFilter::Strict,
        _ => ska::QualFilter::NoFilter,
    }
}

pub fn filter_type_of(s: &str) -> ska::cli::FilterType {
    match s {
        "no-const" => ska::cli::FilterType::NoConst,
        "no-ambig" => ska::cli::FilterType::NoAmbig,
        "no-ambig-or-const" => ska::cli::FilterType::NoAmbigOrConst,
        _ => ska::cli::FilterType::NoFilter,
    }
}
