// The ska CLI built from /repo's working tree with the verification hooks enabled.
fn main() {
    ska::main();
}
