//! `skav faults <file.skf> <mode> [n] [seed] [threads]`: truncations and single-bit flips of a
//! valid .skf against the real loaders (C19).
//!   mode = all     : every proper prefix and every single-bit flip
//!   mode = sample  : n sampled flips (every region class covered) + every 17th prefix
//!   mode = list    : like all, and every fault is reported individually (small files)
//! Each damaged copy is opened the way every subcommand does (u64 loader, then u128 loader);
//! outcome = rejected | same (decodes to exactly the original k, strand mode, names, k-mers,
//! bases) | different.

use crate::ops::try_load;
use serde_json::{json, Value};
use std::sync::{Arc, Mutex};

#[derive(Clone, Copy, PartialEq, Eq, Hash, Debug)]
enum Region {
    StreamId,
    ChunkType,
    ChunkLen,
    Crc,
    Payload,
}

fn region_name(r: Region) -> &'static str {
    match r {
        Region::StreamId => "id",
        Region::ChunkType => "type",
        Region::ChunkLen => "len",
        Region::Crc => "crc",
        Region::Payload => "pay",
    }
}

/// Classify every byte of a snappy frame-format file: (region, frame number; 0 = stream id)
fn classify(data: &[u8]) -> Vec<(Region, usize)> {
    let mut out = vec![(Region::Payload, 0usize); data.len()];
    let mut i = 0;
    let mut frame = 0;
    while i + 4 <= data.len() {
        let ty = data[i];
        let len = data[i + 1] as usize | (data[i + 2] as usize) << 8 | (data[i + 3] as usize) << 16;
        let end = usize::min(i + 4 + len, data.len());
        if ty == 0xff {
            for x in i..end {
                out[x] = (Region::StreamId, 0);
            }
        } else {
            frame += 1;
            out[i] = (Region::ChunkType, frame);
            for x in i + 1..i + 4 {
                out[x] = (Region::ChunkLen, frame);
            }
            for x in i + 4..end {
                out[x] = (if x < i + 8 { Region::Crc } else { Region::Payload }, frame);
            }
        }
        i = end;
    }
    out
}

/// everything a load decodes: k, strand mode, names, k-mers with their bases, and the stored count column
fn content_key(l: &Value) -> String {
    let t = &l["table"];
    json!([t["k"], t["rc"], t["names"], t["rows"], l["counts"]]).to_string()
}

fn outcome(path: &str, orig: &str) -> (&'static str, String) {
    // what every subcommand does: try 64 bits, then 128 bits
    let a = try_load(path, 64);
    let acc = if a["ok"].as_bool().unwrap_or(false) {
        a
    } else {
        let b = try_load(path, 128);
        if b["ok"].as_bool().unwrap_or(false) {
            b
        } else {
            return ("rejected", b["err"].as_str().unwrap_or("").chars().take(60).collect());
        }
    };
    if content_key(&acc) == orig {
        ("same", String::new())
    } else {
        ("different", String::new())
    }
}

pub fn run(args: &[String]) -> Value {
    let file = &args[0];
    let mode = args.get(1).map(|s| s.as_str()).unwrap_or("all");
    let n: usize = args.get(2).and_then(|s| s.parse().ok()).unwrap_or(5000);
    let seed: u64 = args.get(3).and_then(|s| s.parse().ok()).unwrap_or(1);
    let threads: usize = args.get(4).and_then(|s| s.parse().ok()).unwrap_or(8);
    // sample mode: the last frame is enumerated exhaustively when it is at most this many bytes long
    let last_cap: usize = args.get(5).and_then(|s| s.parse().ok()).unwrap_or(6000);
    // a valid .skf with OTHER content, placed next to every damaged copy under the damaged copy's name + ".skf" (the damaged
    // copies themselves carry no extension): a loader must never answer with a neighbouring file
    let decoy: Option<Vec<u8>> = args.get(6).filter(|s| !s.is_empty()).map(|p| std::fs::read(p).expect("read decoy skf"));
    let data = std::fs::read(file).expect("read skf");
    let regions = classify(&data);
    let pristine = {
        let a = try_load(file, 64);
        if a["ok"].as_bool().unwrap_or(false) { a } else { try_load(file, 128) }
    };
    if !pristine["ok"].as_bool().unwrap_or(false) {
        return json!({"error": "pristine file does not load"});
    }
    let orig = content_key(&pristine);

    // fault list: (kind 0=trunc / 1=flip, offset, bit)
    let mut faults: Vec<(u8, usize, u8)> = Vec::new();
    if mode == "sample" {
        let mut x = seed.wrapping_mul(0x9E37_79B9_7F4A_7C15) | 1;
        let mut next = || {
            x ^= x << 13;
            x ^= x >> 7;
            x ^= x << 17;
            x
        };
        // all non-payload bytes are few: take all of them; payload sampled
        for (off, (r, _)) in regions.iter().enumerate() {
            if *r != Region::Payload {
                for bit in 0..8 {
                    faults.push((1, off, bit));
                }
            }
        }
        for _ in 0..n {
            let off = (next() % data.len() as u64) as usize;
            faults.push((1, off, (next() % 8) as u8));
        }
        // prefixes: about every 17th byte of files up to 20 kB, proportionally sparser for larger files (plus the frame
        // boundaries below)
        let stride = 33 * std::cmp::max(1, data.len() / 20000) as u64;
        let mut cut = 0;
        while cut < data.len() {
            faults.push((0, cut, 0));
            cut += 1 + (next() % stride) as usize;
        }
        // every frame boundary, one byte before and after it
        for off in 1..data.len() {
            if regions[off].1 != regions[off - 1].1 {
                for c in [off - 1, off, off + 1] {
                    if c < data.len() {
                        faults.push((0, c, 0));
                    }
                }
            }
        }
        // the last frame (the tail of the serialised table) exhaustively when it is short: every bit, every cut
        let nfr = regions.iter().map(|r| r.1).max().unwrap_or(0);
        let last: Vec<usize> = (0..data.len()).filter(|o| regions[*o].1 == nfr).collect();
        if nfr > 1 && last.len() <= last_cap {
            for off in last {
                faults.push((0, off, 0));
                for bit in 0..8 {
                    faults.push((1, off, bit));
                }
            }
        }
        // the last 64 prefixes exactly
        for cut in data.len().saturating_sub(64)..data.len() {
            faults.push((0, cut, 0));
        }
    } else {
        for cut in 0..data.len() {
            faults.push((0, cut, 0));
        }
        for off in 0..data.len() {
            for bit in 0..8 {
                faults.push((1, off, bit));
            }
        }
    }

    faults.sort();
    faults.dedup();
    let faults = Arc::new(faults);
    let results: Arc<Mutex<Vec<(usize, &'static str, String)>>> = Arc::new(Mutex::new(Vec::new()));
    let chunk = (faults.len() + threads - 1) / threads;
    let dir = if std::path::Path::new("/dev/shm").is_dir() { "/dev/shm" } else { "/tmp" };
    let mut handles = Vec::new();
    for t in 0..threads {
        let faults = Arc::clone(&faults);
        let results = Arc::clone(&results);
        let data = data.clone();
        let orig = orig.clone();
        let tmp = if decoy.is_some() {
            format!("{}/skav-fault-{}-{}", dir, std::process::id(), t)
        } else {
            format!("{}/skav-fault-{}-{}.skf", dir, std::process::id(), t)
        };
        let decoy = decoy.clone();
        handles.push(std::thread::spawn(move || {
            if let Some(d) = &decoy {
                std::fs::write(format!("{}.skf", tmp), d).expect("write decoy");
            }
            let lo = t * chunk;
            let hi = usize::min(lo + chunk, faults.len());
            let mut local = Vec::new();
            for idx in lo..hi {
                let (kind, off, bit) = faults[idx];
                let damaged: Vec<u8> = if kind == 0 {
                    data[..off].to_vec()
                } else {
                    let mut d = data.clone();
                    d[off] ^= 1 << bit;
                    d
                };
                std::fs::write(&tmp, &damaged).expect("write damaged copy");
                let (o, why) = outcome(&tmp, &orig);
                local.push((idx, o, why));
            }
            let _ = std::fs::remove_file(&tmp);
            if decoy.is_some() {
                let _ = std::fs::remove_file(format!("{}.skf", tmp));
            }
            results.lock().unwrap().extend(local);
        }));
    }
    for h in handles {
        h.join().expect("fault worker");
    }
    let mut res = results.lock().unwrap().clone();
    res.sort_by_key(|r| r.0);

    // aggregate per (kind, region, frame)
    use std::collections::BTreeMap;
    let mut agg: BTreeMap<(String, String, usize), (u64, u64, u64, u64, i64)> = BTreeMap::new();
    let mut listed: Vec<Value> = Vec::new();
    for (idx, o, why) in res.iter() {
        let (kind, off, bit) = faults[*idx];
        let (reg, frame) = if kind == 0 {
            if off < regions.len() { regions[off] } else { (Region::Payload, 0) }
        } else {
            regions[off]
        };
        let key = (if kind == 0 { "trunc".to_string() } else { "flip".to_string() }, region_name(reg).to_string(), frame);
        let e = agg.entry(key).or_insert((0, 0, 0, 0, -1));
        e.0 += 1;
        match *o {
            "rejected" => e.1 += 1,
            "same" => e.2 += 1,
            _ => {
                e.3 += 1;
                if e.4 < 0 {
                    e.4 = off as i64 * 8 + bit as i64;
                }
            }
        }
        if mode == "list" || *o != "rejected" {
            if mode == "list" || listed.len() < 2000 {
                listed.push(json!({"ev": "fault", "kind": if kind == 0 { "trunc" } else { "flip" }, "off": off, "bit": bit,
                                   "region": region_name(reg), "frame": frame, "outcome": o, "why": why, "panic": ""}));
            }
        }
    }
    let aggs: Vec<Value> = agg
        .iter()
        .map(|((kind, reg, frame), (n, rej, same, diff, first))| {
            json!({"ev": "fault.agg", "kind": kind, "region": reg, "frame": frame, "n": n, "rejected": rej,
                   "same": same, "different": diff, "first_diff": first, "panic": ""})
        })
        .collect();
    let nframes = regions.iter().map(|r| r.1).max().unwrap_or(0);
    json!({"file_len": data.len(), "frames": nframes, "faults": faults.len(), "agg": aggs, "listed": listed,
           "k": pristine["table"]["k"], "ksize": pristine["table"]["ksize"]})
}
