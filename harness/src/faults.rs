//! `skav faults`: exhaustive truncation / bit-flip enumeration against the real loaders (C19).
use serde_json::{json, Value};

pub fn run(_args: &[String]) -> Value {
    json!({"todo": true})
}
