//! skav: drives the real ska library (built from /repo's working tree with the
//! `verif-hooks` feature) and records what it did as ndjson events that the TLA+
//! trace specifications in /verif/spec validate, or replays behaviours printed by
//! TLC (REPLAY lines) into the real code.
//!
//! Usage:
//!   skav exec   < ops.ndjson   > events.ndjson     (one event per op)
//!   skav replay < replay.ndjson > verdicts.ndjson  (one verdict per TLC behaviour)
//!   skav tables                > events.ndjson     (C15 complete table dump)
//!   skav faults <args>                             (C19 exhaustive fault enumeration)
//!
//! A panic inside the code under test is data: the event carries `"panic": msg`.

use serde_json::{json, Value};
use std::io::{BufRead, Write};

mod faults;
mod ops;
mod replay;
mod util;

fn main() {
    // Panics in the code under test are caught per op and reported in the event.
    std::panic::set_hook(Box::new(|_| {}));
    let args: Vec<String> = std::env::args().collect();
    let mode = args.get(1).map(|s| s.as_str()).unwrap_or("");
    let stdin = std::io::stdin();
    let stdout = std::io::stdout();
    let mut out = std::io::BufWriter::new(stdout.lock());
    match mode {
        "exec" => {
            for line in stdin.lock().lines() {
                let line = line.expect("read");
                if line.trim().is_empty() {
                    continue;
                }
                let op: Value = serde_json::from_str(&line).expect("bad op json");
                let ev = ops::exec(&op);
                writeln!(out, "{}", ev).unwrap();
            }
        }
        "replay" => {
            for line in stdin.lock().lines() {
                let line = line.expect("read");
                if line.trim().is_empty() {
                    continue;
                }
                let beh: Value = serde_json::from_str(&line).expect("bad replay json");
                let v = replay::replay(&beh);
                writeln!(out, "{}", v).unwrap();
            }
        }
        "tables" => {
            for ev in ops::tables() {
                writeln!(out, "{}", ev).unwrap();
            }
        }
        "faults" => {
            let v = faults::run(&args[2..]);
            writeln!(out, "{}", v).unwrap();
        }
        _ => {
            eprintln!("usage: skav exec|replay|tables|faults");
            writeln!(out, "{}", json!({"error":"usage"})).unwrap();
            std::process::exit(2);
        }
    }
    out.flush().unwrap();
}
