//! `skav replay`: behaviours printed by TLC (REPLAY lines) stepped through the real code.
//! Each verdict: {"ok": bool, "kind":.., "why": .., "expected":.., "actual":..}

use crate::ops;
use serde_json::{json, Value};

fn verdict(kind: &str, ok: bool, why: &str, expected: Value, actual: Value) -> Value {
    if ok {
        json!({"ok": true, "kind": kind})
    } else {
        json!({"ok": false, "kind": kind, "why": why, "expected": expected, "actual": actual})
    }
}

pub fn replay(beh: &Value) -> Value {
    let kind = beh["kind"].as_str().unwrap_or("").to_string();
    match kind.as_str() {
        "iter" => replay_iter(beh),
        "aln" => replay_aln(beh),
        "filter" => replay_filter(beh),
        "tblhist" => replay_tblhist(beh),
        "filter1" => replay_filter1(beh),
        "dist1" => replay_dist1(beh),
        "refidx" => replay_refidx(beh),
        "map1" => replay_map1(beh),
        "idx" => replay_idx(beh),
        "dispatch" => replay_dispatch(beh),
        _ => json!({"ok": false, "kind": kind, "why": "unknown replay kind"}),
    }
}

/// Iterator behaviour: {seq, qual, k, rc, rule, minq, obs:[{km,mid,isrc,pal,pos,mq}]}
/// Stepped through SplitKmer<u64> and SplitKmer<u128>.
fn replay_iter(beh: &Value) -> Value {
    let expected = beh["obs"].as_array().cloned().unwrap_or_default();
    for w in [64u64, 128u64] {
        let qual = if beh["qual"].as_array().map(|a| a.is_empty()).unwrap_or(true) {
            Value::Null
        } else {
            beh["qual"].clone()
        };
        let op = json!({
            "op": "iter", "w": w, "k": beh["k"], "rc": beh["rc"], "seq": beh["seq"],
            "qual": qual, "minq": beh["minq"], "qf": beh["rule"], "reads": false,
        });
        let ev = ops::exec(&op);
        if ev["panic"].as_str().unwrap_or("") != "" {
            return verdict("iter", false, "panic", json!(expected), ev);
        }
        let steps = ev["steps"].as_array().cloned().unwrap_or_default();
        let mut same = steps.len() == expected.len();
        if same {
            for (s, e) in steps.iter().zip(expected.iter()) {
                for key in ["km", "mid", "isrc", "pal", "pos", "mq"] {
                    if s[key] != e[key] {
                        same = false;
                    }
                }
            }
        }
        if !same {
            return verdict("iter", false, &format!("width {w}: yielded list differs"), json!(expected), json!(steps));
        }
        // `None` exactly when no window exists
        if ev["none"].as_bool().unwrap_or(false) != expected.is_empty() {
            return verdict("iter", false, "None/Some mismatch", json!(expected), ev);
        }
    }
    verdict("iter", true, "", Value::Null, Value::Null)
}

/// Writer behaviour: {k, contigs, repeats, mask_ambig, writes:[[pos,chrom,base]], states:[[np,cc,lm,lw,off]..], out:[bytes]}
fn replay_aln(beh: &Value) -> Value {
    let op = json!({"op": "aln", "k": beh["k"], "contigs": beh["contigs"], "repeats": beh["repeats"],
                    "mask_ambig": beh["mask_ambig"], "writes": beh["writes"]});
    let ev = ops::exec(&op);
    if ev["panic"].as_str().unwrap_or("") != "" {
        return verdict("aln", false, "panic", beh["out"].clone(), ev);
    }
    if ev["out"] != beh["out"] {
        return verdict("aln", false, "output sequence differs", beh["out"].clone(), ev["out"].clone());
    }
    // scalar states are a witness only (MODEL-DRIFT, not a violation)
    let drift = !beh["states"].is_null() && ev["states"] != beh["states"];
    json!({"ok": true, "kind": "aln", "drift": drift})
}

/// Counting-filter behaviour: {minc, obs:["x1","x2",..], ords:[bool: added now]}
/// Each abstract k-mer is a concrete 5-mer read (x1, x2 share their arms); run single-strand
/// with forward reads, and with merged strands presenting every other sighting reverse-complemented.
fn replay_filter(beh: &Value) -> Value {
    let fwd = |x: &str| match x {
        "x1" => "AAGTC",
        "x2" => "AACTC",
        _ => "GGATT",
    };
    let rcs = |x: &str| match x {
        "x1" => "GACTT",
        "x2" => "GAGTT",
        _ => "AATCC",
    };
    let want = beh["ords"].as_array().cloned().unwrap_or_default();
    let mut drift = false;
    for rc in [false, true] {
        let reads: Vec<Value> = beh["obs"]
            .as_array()
            .unwrap()
            .iter()
            .enumerate()
            .map(|(i, x)| {
                let name = x.as_str().unwrap();
                json!(if rc && i % 2 == 1 { rcs(name) } else { fwd(name) })
            })
            .collect();
        let op = json!({"op": "filter_seq", "w": 64, "k": 5, "rc": rc, "minc": beh["minc"], "reads": reads});
        let ev = ops::exec(&op);
        if ev["panic"].as_str().unwrap_or("") != "" {
            return verdict("filter", false, "panic", beh["ords"].clone(), ev);
        }
        let gotb: Vec<Value> = ev["obs"].as_array().unwrap().iter().map(|o| json!(o["ord"].as_i64() == Some(0))).collect();
        // The property (C12) speaks about the k-mers that end up kept: exactly those sighted at least minc times.
        // On which sighting the filter lets a k-mer through is implementation-shaped: a difference there is drift.
        let minc = beh["minc"].as_u64().unwrap_or(1) as usize;
        let names: Vec<&str> = beh["obs"].as_array().unwrap().iter().map(|x| x.as_str().unwrap()).collect();
        let mut kept_want: Vec<&str> = names.iter().cloned().filter(|n| names.iter().filter(|m| *m == n).count() >= minc).collect();
        kept_want.sort();
        kept_want.dedup();
        let mut kept_got: Vec<&str> = names.iter().zip(gotb.iter()).filter(|(_, b)| **b == json!(true)).map(|(n, _)| *n).collect();
        kept_got.sort();
        kept_got.dedup();
        if kept_got != kept_want {
            return verdict("filter", false, if rc { "kept k-mers are not those seen min-count times (strands merged)" } else { "kept k-mers are not those seen min-count times" }, json!(kept_want), json!(kept_got));
        }
        if gotb != want {
            drift = true;
        }
    }
    json!({"ok": true, "kind": "filter", "drift": drift})
}

/// Table history: {table, steps:[{do:..}], expect:[projection after each step]}
fn replay_tblhist(beh: &Value) -> Value {
    let op = json!({"op": "tbl", "w": beh["w"], "table": beh["table"], "steps": beh["steps"]});
    let ev = ops::exec(&op);
    if ev["panic"].as_str().unwrap_or("") != "" {
        return verdict("tblhist", false, "panic", beh["expect"].clone(), ev);
    }
    let outs = ev["outs"].as_array().cloned().unwrap_or_default();
    let want = beh["expect"].as_array().cloned().unwrap_or_default();
    if outs.len() != want.len() {
        return verdict("tblhist", false, "step count differs (panic in a step?)", json!(want), json!(outs));
    }
    for (i, (o, e)) in outs.iter().zip(want.iter()).enumerate() {
        if e.is_null() {
            continue;
        }
        for (key, val) in e.as_object().unwrap() {
            if &o[key] != val {
                return verdict("tblhist", false, &format!("step {i} field {key} differs"), e.clone(), o.clone());
            }
        }
    }
    verdict("tblhist", true, "", Value::Null, Value::Null)
}

fn replay_idx(beh: &Value) -> Value {
    let ev = ops::exec(&json!({"op": "idx", "lens": beh["lens"]}));
    if ev["panic"].as_str().unwrap_or("") != "" {
        return verdict("idx", false, "panic", beh["pairs"].clone(), ev);
    }
    if ev["pairs"] != beh["pairs"] {
        return verdict("idx", false, "coordinate map differs", beh["pairs"].clone(), ev["pairs"].clone());
    }
    verdict("idx", true, "", Value::Null, Value::Null)
}

/// Width dispatch: {path, accept64: bool, accept128: bool}
fn replay_dispatch(beh: &Value) -> Value {
    let ev = ops::exec(&json!({"op": "load", "path": beh["path"]}));
    let a64 = ev["as64"]["ok"].as_bool().unwrap_or(false);
    let a128 = ev["as128"]["ok"].as_bool().unwrap_or(false);
    // the verdict is on what every subcommand does (try u64, then u128); acceptance by the
    // loader that is never reached is only reported as model drift
    let disp = |x: bool, y: bool| if x { 64 } else if y { 128 } else { 0 };
    let want = disp(beh["accept64"].as_bool().unwrap_or(false), beh["accept128"].as_bool().unwrap_or(false));
    let got = disp(a64, a128);
    if want != got {
        return verdict("dispatch", false, "file is read with a different integer width than the model's dispatch", json!(want), json!(got));
    }
    let drift = json!(a64) != beh["accept64"] || json!(a128) != beh["accept128"];
    json!({"ok": true, "kind": "dispatch", "drift": drift})
}

/// One filter application: {rows:[[km,bases]..], ns, setting:{thr,filter,am,mask,ng}, keep:[[km,bases]..]}
/// Executed twice in the real code: filter(update_kmers = true) + projection, and
/// filter(update_kmers = false) + write_fasta (what `ska align` does).
fn replay_filter1(beh: &Value) -> Value {
    let ns = beh["ns"].as_u64().unwrap() as usize;
    let names: Vec<String> = (0..ns).map(|i| format!("s{i}")).collect();
    let table = json!({"k": 5, "rc": true, "names": names, "rows": beh["rows"]});
    let st = &beh["setting"];
    let mut want: Vec<Value> = beh["keep"].as_array().cloned().unwrap_or_default();
    want.sort_by_key(|v| v.to_string());
    for update in [true, false] {
        let steps = if update {
            json!([{"do": "filter", "min_count": st["thr"], "ambig_missing": st["am"], "filter": st["filter"],
                    "mask": st["mask"], "nogap": st["ng"], "update": true}, {"do": "proj"}])
        } else {
            json!([{"do": "filter", "min_count": st["thr"], "ambig_missing": st["am"], "filter": st["filter"],
                    "mask": st["mask"], "nogap": st["ng"], "update": false}, {"do": "fasta"}])
        };
        let ev = ops::exec(&json!({"op": "tbl", "w": 64, "table": table, "steps": steps}));
        let outs = ev["outs"].as_array().cloned().unwrap_or_default();
        if outs.len() != 2 || outs.iter().any(|o| o["panic"].as_str().unwrap_or("x") != "") {
            return verdict("filter1", false, "panic in filter", json!(want), ev);
        }
        if update {
            let mut got: Vec<Value> = outs[1]["rows"].as_array().cloned().unwrap_or_default();
            got.sort_by_key(|v| v.to_string());
            if got != want {
                return verdict("filter1", false, "kept rows differ (filter with update_kmers)", json!(want), json!(got));
            }
        } else {
            // columns of the alignment = kept rows (as a multiset)
            let seqs = outs[1]["seqs"].as_array().cloned().unwrap_or_default();
            let ncol = seqs.first().and_then(|s| s.as_array()).map(|a| a.len()).unwrap_or(0);
            let mut cols: Vec<String> = (0..ncol)
                .map(|j| json!(seqs.iter().map(|s| s[j].clone()).collect::<Vec<Value>>()).to_string())
                .collect();
            cols.sort();
            let mut wcols: Vec<String> = want.iter().map(|r| r[1].to_string()).collect();
            wcols.sort();
            if seqs.len() != ns || cols != wcols {
                return verdict("filter1", false, "alignment columns differ (filter + write_fasta)", json!(wcols), json!(cols));
            }
        }
    }
    verdict("filter1", true, "", Value::Null, Value::Null)
}

/// One distance computation: {ns, rows, thr, pairs:[[i,j,snps,num,den]..]} through
/// generic_modes::distance (the whole `ska distance` pipeline, in process, 1 thread).
fn replay_dist1(beh: &Value) -> Value {
    let ns = beh["ns"].as_u64().unwrap() as usize;
    let thr = beh["thr"].as_u64().unwrap() as usize;
    let names: Vec<String> = (0..ns).map(|i| format!("s{i}")).collect();
    let table = json!({"k": 5, "rc": true, "names": names, "rows": beh["rows"]});
    // min_freq with ceil(ns * f) = thr
    // two decimal values with ceil(ns * f) = thr: just below thr/ns, and just above (thr-1)/ns
    // (the latter has a small fractional part, which a round-instead-of-ceil slip would get wrong)
    let nrows = beh["rows"].as_array().map(|a| a.len()).unwrap_or(0);
    let minf = if thr == 0 {
        0.0
    } else if nrows % 2 == 0 {
        ((1000 * thr) / ns) as f64 / 1000.0
    } else {
        ((1000 * (thr - 1)) / ns + 1) as f64 / 1000.0
    };
    let ev = ops::exec(&json!({"op": "distcmd", "w": 64, "table": table, "min_freq": minf, "filt_ambig": true}));
    if ev["panic"].as_str().unwrap_or("") != "" {
        return verdict("dist1", false, "panic", beh["pairs"].clone(), ev);
    }
    let rows = ev["rows"].as_array().cloned().unwrap_or_default();
    let want = beh["pairs"].as_array().cloned().unwrap_or_default();
    if rows.len() != want.len() {
        return verdict("dist1", false, "number of pairs differs", json!(want), json!(rows));
    }
    for w in &want {
        let (i, j) = (w[0].as_u64().unwrap() as usize - 1, w[1].as_u64().unwrap() as usize - 1);
        let (snps, num, den) = (w[2].as_i64().unwrap(), w[3].as_i64().unwrap(), w[4].as_i64().unwrap());
        let found = rows.iter().find(|r| {
            (r[0] == json!(format!("s{i}")) && r[1] == json!(format!("s{j}")))
                || (r[0] == json!(format!("s{j}")) && r[1] == json!(format!("s{i}")))
        });
        match found {
            None => return verdict("dist1", false, "pair missing", w.clone(), json!(rows)),
            Some(r) => {
                let d100 = r[2].as_i64().unwrap();
                let p = r[3].as_i64().unwrap();
                let prop_ok = if den == 0 { p == 0 } else { (p * den - num * 100000).abs() <= den };
                if d100 != snps * 100 || !prop_ok {
                    return verdict("dist1", false, "distance or mismatch proportion differs", w.clone(), r.clone());
                }
            }
        }
    }
    verdict("dist1", true, "", Value::Null, Value::Null)
}

/// One end-to-end mapping: {k, rc, contigs, table, ambig_mask, repeat_mask, aln} through RefSka::new + map + write_aln
/// (and write_vcf, which must not fail); the printed row must be the declarative alignment.
fn replay_map1(beh: &Value) -> Value {
    use std::io::Write;
    let dir = if std::path::Path::new("/dev/shm").is_dir() { "/dev/shm" } else { "/tmp" };
    let path = format!("{}/skav-map1-{}-{:?}.fa", dir, std::process::id(), std::thread::current().id());
    {
        let mut f = std::fs::File::create(&path).expect("create ref fasta");
        for (i, c) in beh["contigs"].as_array().unwrap().iter().enumerate() {
            let bytes = crate::util::bytes_of(c);
            writeln!(f, ">c{}", i).unwrap();
            // (an empty contig is a header followed by an empty line; a header at the very end of the file is not a record)
            f.write_all(&bytes).unwrap();
            writeln!(f).unwrap();
        }
    }
    let obs = ops::exec(&json!({"op": "map", "w": 64, "table": beh["table"], "file": path, "ambig_mask": beh["ambig_mask"],
                                "repeat_mask": beh["repeat_mask"], "threads": 1}));
    let _ = std::fs::remove_file(&path);
    if obs["panic"].as_str().unwrap_or("") != "" {
        return verdict("map1", false, "panic in RefSka::new / map / write_aln / write_vcf", beh["aln"].clone(), obs);
    }
    let got = obs["aln"]["seqs"].as_array().and_then(|a| a.first().cloned()).unwrap_or(Value::Null);
    if got != beh["aln"] {
        return verdict("map1", false, "mapped alignment differs from the declarative one", beh["aln"].clone(), got);
    }
    verdict("map1", true, "", Value::Null, Value::Null)
}

/// Reference index behaviour: {k, rc, contigs:[[bytes]], index:[[km,mid,pos,chrom,isrc]], repeats:[abs], coords:[[chrom,pos]]}
/// through RefSka::new (index + repeat coordinates) and IdxCheck.
fn replay_refidx(beh: &Value) -> Value {
    use std::io::Write;
    let dir = if std::path::Path::new("/dev/shm").is_dir() { "/dev/shm" } else { "/tmp" };
    let path = format!("{}/skav-ref-{}-{:?}.fa", dir, std::process::id(), std::thread::current().id());
    {
        let mut f = std::fs::File::create(&path).expect("create ref fasta");
        for (i, c) in beh["contigs"].as_array().unwrap().iter().enumerate() {
            let bytes = crate::util::bytes_of(c);
            writeln!(f, ">c{}", i).unwrap();
            if !bytes.is_empty() {
                f.write_all(&bytes).unwrap();
                writeln!(f).unwrap();
            }
        }
    }
    let ev = ops::exec(&json!({"op": "ref", "w": 64, "k": beh["k"], "file": path, "rc": beh["rc"], "ambig_mask": false, "repeat_mask": true}));
    // Observable behaviour first: the reference mapped onto itself with --repeat-mask must be the declarative alignment
    // (this also runs write_vcf, i.e. the coordinate iterator, on every reference shape).
    let obs = if beh["selfaln"].is_null() {
        Value::Null
    } else {
        ops::exec(&json!({"op": "map", "w": 64, "table": beh["table"], "file": path, "ambig_mask": false, "repeat_mask": true, "threads": 1}))
    };
    let _ = std::fs::remove_file(&path);
    if ev["panic"].as_str().unwrap_or("") != "" {
        return verdict("refidx", false, "panic in RefSka::new", beh["index"].clone(), ev);
    }
    if !obs.is_null() {
        if obs["panic"].as_str().unwrap_or("") != "" {
            return verdict("refidx", false, "panic in map / write_aln / write_vcf", beh["selfaln"].clone(), obs);
        }
        let got = obs["aln"]["seqs"].as_array().and_then(|a| a.first().cloned()).unwrap_or(Value::Null);
        if got != beh["selfaln"] {
            return verdict("refidx", false, "self-mapping with --repeat-mask differs from the declarative alignment", beh["selfaln"].clone(), got);
        }
    }
    // Conformance of the implementation-shaped model (index entries, repeat-coordinate loop, coordinate iterator):
    // a difference with the observable output right is model drift, not a violation.
    let mut drift = ev["index"] != beh["index"];
    let mut got: Vec<u64> = ev["repeats"].as_array().unwrap().iter().map(|x| x.as_u64().unwrap()).collect();
    let n = got.len();
    got.sort();
    got.dedup();
    let want: Vec<u64> = beh["repeats"].as_array().unwrap().iter().map(|x| x.as_u64().unwrap()).collect();
    drift = drift || got != want || got.len() != n;
    let lens: Vec<usize> = beh["contigs"].as_array().unwrap().iter().map(|c| c.as_array().unwrap().len()).collect();
    let iv = ops::exec(&json!({"op": "idx", "lens": lens}));
    drift = drift || iv["panic"].as_str().unwrap_or("") != "" || iv["pairs"] != beh["coords"];
    json!({"ok": true, "kind": "refidx", "drift": drift})
}
