------------------------------- MODULE MC_Cov -------------------------------
(***************************************************************************)
(* C20 at design level.  (a) For every list of up to MaxL windows over     *)
(* three k-mers: the run-length histogram equals the declarative           *)
(* multiplicity histogram, row c of the table is multiplicity c, and the   *)
(* truncation keeps exactly the rows up to the last one with >= MinFreq    *)
(* k-mers.  (b) For every table length and every sign sequence: the        *)
(* cutoff loop (one TLC step per iteration) returns the smallest count     *)
(* with a negative sign, capped at the table length; labels below it are   *)
(* Error, the others Coverage.  (b) is replayed into the real find_cutoff  *)
(* with parameter points realising each monotone sign pattern.             *)
(***************************************************************************)
EXTENDS Cov, TLC, Json

CONSTANTS MaxL, MaxT, EmitReplay

VARIABLES mode, L, neg, max, cutoff, pc
vars == <<mode, L, neg, max, cutoff, pc>>

KmPool == {<<0, 0>>, <<0, 1>>, <<3, 2>>}

Init == \/ /\ mode = "hist" /\ L \in UNION {[1..n -> KmPool] : n \in 0..MaxL}
           /\ neg = <<>> /\ max = 0 /\ cutoff = 0 /\ pc = "done"
        \/ /\ mode = "cutoff" /\ L = <<>> /\ max \in 0..MaxT /\ neg \in [1..MaxT -> BOOLEAN]
           /\ cutoff = 1 /\ pc = "loop"

\* one iteration of find_cutoff's while loop
Iterate == /\ mode = "cutoff" /\ pc = "loop"
           /\ IF cutoff < max
              THEN IF neg[cutoff] THEN pc' = "done" /\ UNCHANGED cutoff
                   ELSE cutoff' = cutoff + 1 /\ UNCHANGED pc
              ELSE pc' = "done" /\ UNCHANGED cutoff
           /\ UNCHANGED <<mode, L, neg, max>>
Next == Iterate
Spec == Init /\ [][Next]_vars

HistCorrect == mode = "hist" =>
   LET ri == RunInfo(L)
       decl == HistOfMult(Multiplicity(L), MaxL)
   IN /\ ri.grouped
      /\ HistOfRuns(ri.lens, MaxL) = decl
      /\ \A c \in 1..MaxL : decl[c] = Cardinality({x \in KmPool : Cardinality({i \in 1..Len(L) : L[i] = x}) = c})
      /\ LET t == Trunc(decl) IN
         /\ \A c \in 1..Len(t) : t[c] = decl[c]
         /\ (Len(t) > 0 => t[Len(t)] >= MinFreq)
         /\ \A c \in (Len(t) + 1)..MaxL : decl[c] < MinFreq

CutoffCorrect == (mode = "cutoff" /\ pc = "done") =>
   /\ cutoff = CutoffDecl(neg, max)
   /\ cutoff = CutoffLoop(neg, max, 1)
   /\ \A i \in 1..max : (Label(i, cutoff) = "Error") = (i < cutoff)
   /\ \A i \in 1..(cutoff - 1) : i < max => ~neg[i]        \* everything labelled Error is on the error side

\* monotone patterns are the realisable ones (the log ratio is linear in the count)
Monotone == \A i \in 1..(MaxT - 1) : neg[i] => neg[i + 1]
Emit == (EmitReplay /\ mode = "cutoff" /\ pc = "done" /\ Monotone) =>
   PrintT(<<"REPLAY", ToJson([kind |-> "cutoff", max |-> max,
                              first_neg |-> (IF \E i \in 1..MaxT : neg[i] THEN Min({i \in 1..MaxT : neg[i]}) ELSE MaxT + 1),
                              cutoff |-> cutoff])>>)
=============================================================================
