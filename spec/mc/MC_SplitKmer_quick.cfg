SPECIFICATION Spec
CONSTANTS
  Dev = {}
  Alphabet = {65, 67, 71, 84, 78}
  MaxLen = 6
  Ks = {5}
  Quals = {}
  Rules = {"none"}
  MinQ = 0
  EmitK = {5}
INVARIANTS Consistent PrefixOK Refines DictChar Emit
CHECK_DEADLOCK FALSE
