SPECIFICATION Spec
CONSTANTS
  Dev = {}
  NSamp = 3
  MaxLen = 4
  WithSnp = FALSE
  EmitReplay = TRUE
  KK = 11
INVARIANTS Traversal
CHECK_DEADLOCK FALSE
