SPECIFICATION Spec
INVARIANTS CodeIsUnion FastCodeAgrees UnionLaws CompLaws WeightLaws AmbigLaws
CHECK_DEADLOCK FALSE
