SPECIFICATION Spec
CONSTANTS
  Dev = {}
  MaxObs = 8
  EmitReplay = TRUE
INVARIANTS NoFalseNegative Exact AddedAtThreshold Emit
CHECK_DEADLOCK FALSE
