SPECIFICATION Spec
CONSTANTS
  Dev = {}
  MaxObs = 8
  EmitReplay = TRUE
INVARIANTS NoFalseNegative Exact AddedAtThreshold SameStep Emit
CHECK_DEADLOCK FALSE
