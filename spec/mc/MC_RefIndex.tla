----------------------------- MODULE MC_RefIndex -----------------------------
(***************************************************************************)
(* C04/C05 at design level: the repeat-coordinate loop of RefSka::new      *)
(* (per-contig offset, merged ranges) against the declarative set of       *)
(* positions within (k-1)/2 of a repeated reference k-mer, for every       *)
(* three-contig reference of a bounded universe - including a middle       *)
(* contig too short to have any k-mer - and the IdxCheck iterator against  *)
(* the declarative coordinate map.  One TLC step per reference (the loop   *)
(* is a recursive operator); behaviours are REPLAY lines compared with the *)
(* real RefSka::new (index and repeat coordinates) and IdxCheck.           *)
(***************************************************************************)
EXTENDS RefMap, TLC, Json

CONSTANTS Len1, Len3, EmitReplay

VARIABLES contigs, rc, res, phase
vars == <<contigs, rc, res, phase>>

K == 5
SeqsOver(alpha, lens) == UNION {[1..n -> alpha] : n \in lens}
Shorts == {<<>>, <<65>>, <<65, 67, 65>>, <<78, 65, 78>>, <<65, 65, 65, 65>>}

Init == /\ \E a \in SeqsOver({65, 67}, Len1), b \in Shorts, c \in SeqsOver({65, 67}, Len3) : contigs = <<a, b, c>>
        /\ rc \in BOOLEAN /\ res = <<>> /\ phase = "start"
Compute == /\ phase = "start"
           /\ res' = RepeatCoordsImpl(contigs, RefIndex(contigs, K, rc), K)
           /\ phase' = "done"
           /\ UNCHANGED <<contigs, rc>>
Next == Compute
Spec == Init /\ [][Next]_vars

Idx == RefIndex(contigs, K, rc)
RepeatLoopCorrect == phase = "done" =>
   /\ {res[i] : i \in 1..Len(res)} = RepeatCoords(contigs, Idx, K)
   /\ Cardinality({res[i] : i \in 1..Len(res)}) = Len(res)          \* each coordinate once

\* IdxCheck iterator = declarative coordinate map, over the whole concatenated reference
lens == [c \in 1..Len(contigs) |-> Len(contigs[c])]
RECURSIVE IdxRun(_, _, _)
IdxRun(st, n, acc) == IF n = 0 THEN acc
                      ELSE LET r == IdxNext(lens, st) IN
                           IF r.some THEN IdxRun(r.st, n - 1, Append(acc, r.item)) ELSE acc
IdxCorrect == LET got == IdxRun(<<0, 0>>, TotalLen(contigs), <<>>) IN
   /\ Len(got) = TotalLen(contigs)
   /\ \A a \in 0..(TotalLen(contigs) - 1) : got[a + 1] = CoordOf(lens, a)

\* the observable side of the same reference: the reference mapped onto itself with --repeat-mask (declarative MappedAln
\* of the table built from the contigs); the real `map` must print exactly this, whatever its index looks like inside
SelfT == BuildTable(<<contigs>>, <<"self">>, K, rc)
SelfAln == MappedAln(contigs, K, Idx, SelfT, 1, FALSE, TRUE)
Emit == (EmitReplay /\ phase = "done") =>
   PrintT(<<"REPLAY", ToJson([kind |-> "refidx", k |-> K, rc |-> rc, contigs |-> contigs,
                              table |-> [k |-> K, rc |-> rc, names |-> <<"self">>, rows |-> SetToSeq({<<r[1], r[2]>> : r \in SelfT.rows})],
                              selfaln |-> SelfAln,
                              index |-> [i \in 1..Len(Idx) |-> <<Idx[i].km, Idx[i].mid, Idx[i].pos, Idx[i].chrom, Idx[i].isrc>>],
                              repeats |-> SetToSortSeq(RepeatCoords(contigs, Idx, K), <),
                              coords |-> [a \in 1..TotalLen(contigs) |-> CoordOf(lens, a - 1)]])>>)
=============================================================================
