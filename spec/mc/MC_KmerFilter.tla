---------------------------- MODULE MC_KmerFilter ----------------------------
(***************************************************************************)
(* C12 at design level: the counting filter state machine over every       *)
(* sequence of up to MaxObs observations of three full k-mers (two share a *)
(* split k-mer with different middle bases), min_count 1..4, with and      *)
(* without a hash collision between two of them.  Invariants: a k-mer that *)
(* has reached the count is in the dictionary (never lost); without a      *)
(* collision the dictionary is EXACTLY the k-mers that reached the count;  *)
(* a k-mer enters at the moment its count reaches the threshold.  Collision *)
(* free behaviours are REPLAY lines executed by the real KmerFilter.       *)
(***************************************************************************)
EXTENDS KmerFilter, TLC, Json

CONSTANTS MaxObs, EmitReplay

VARIABLES f, minc, collide, trueCount, dict, obs, passes
vars == <<f, minc, collide, trueCount, dict, obs, passes>>

Kmers == {"x1", "x2", "x3"}
Hash(x) == IF collide /\ x = "x3" THEN "h2" ELSE IF x = "x1" THEN "h1" ELSE IF x = "x2" THEN "h2" ELSE "h3"

Init == /\ f = FilterInit /\ minc \in 1..4 /\ collide \in BOOLEAN
        /\ trueCount = [x \in Kmers |-> 0] /\ dict = {} /\ obs = <<>> /\ passes = <<>>

Observe(x) ==
   LET r == FilterStep(f, Hash(x), minc) IN
   /\ Len(obs) < MaxObs
   /\ f' = r.f
   /\ trueCount' = [trueCount EXCEPT ![x] = @ + 1]
   /\ dict' = IF r.pass THEN dict \cup {x} ELSE dict
   /\ obs' = Append(obs, x) /\ passes' = Append(passes, r.pass)
   /\ UNCHANGED <<minc, collide>>
Next == \E x \in Kmers : Observe(x)
Spec == Init /\ [][Next]_vars

\* Never lost - unconditionally.  TLC REFUTES this for min_count >= 3 when two k-mers share a hash
\* (x2, x2, x3, x2 with h(x3) = h(x2), min_count 3: the count passes 3 on x3's sighting, x2's third
\* sighting sees 4 and is never added).  Recorded as known finding K12 (needs a full 64-bit ntHash
\* collision inside one sample); checked by MC_KmerFilter_collision.cfg, expected to fail.
NoFalseNegativeAlways == \A x \in Kmers : trueCount[x] >= minc => x \in dict
\* What does hold: never lost without a hash collision, and for min_count <= 2 even with one
NoFalseNegative == (~collide \/ minc <= 2) => NoFalseNegativeAlways
Exact == ~collide => \A x \in Kmers : (x \in dict) = (trueCount[x] >= minc)
\* added exactly when the count reaches the threshold (action property as a state check on the last step)
AddedAtThreshold == (~collide /\ obs # <<>>) =>
   LET x == obs[Len(obs)] IN
   (trueCount[x] = Max2(minc, 1) => x \in dict) /\ (trueCount[x] < minc => x \notin dict)

\* Bridge to apalache/KmerFilterInd.tla (whose inductive invariant is discharged for unbounded counters): that module's
\* Observe - total count function, 0 = no entry - computes on every reachable state the same next state and the same "added
\* now" as FilterStep, for every hash.
SameStep == \A h \in {"h1", "h2", "h3"} :
   LET r == FilterStep(f, h, minc)
       c0 == CntOf(f, h)
       indBloom == IF minc <= 1 THEN f.bloom ELSE f.bloom \cup {h}
       indCnt == IF minc <= 2 \/ h \notin f.bloom THEN c0 ELSE (IF c0 > 0 THEN c0 + 1 ELSE 2)
       indPass == IF minc <= 1 THEN TRUE ELSE IF h \notin f.bloom THEN FALSE
                  ELSE IF minc = 2 THEN TRUE ELSE indCnt = minc
   IN r.f.bloom = indBloom /\ CntOf(r.f, h) = indCnt /\ r.pass = indPass
      /\ \A g \in {"h1", "h2", "h3"} \ {h} : CntOf(r.f, g) = CntOf(f, g)

Emit == (EmitReplay /\ ~collide /\ Len(obs) = MaxObs) =>
   PrintT(<<"REPLAY", ToJson([kind |-> "filter", minc |-> minc, obs |-> obs, ords |-> passes])>>)
=============================================================================
