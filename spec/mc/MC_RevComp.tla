----------------------------- MODULE MC_RevComp -----------------------------
(***************************************************************************)
(* C16 at design level: the shuffle network of UInt::rev_comp (u64 and     *)
(* u128) reverses and complements a packed k-mer of ANY length.            *)
(*                                                                         *)
(* The network is data independent, so it is run on a vector of position   *)
(* LABELS: slot i of the W-digit word (most significant first) holds       *)
(* <<j, c>> meaning "digit j of the input, complemented c times", or       *)
(* <<0, c>> for a digit that was zero.  One TLC step per statement of the  *)
(* code: the five (u64) or six (u128) swap stages, the XOR with 0xAA..,    *)
(* the final right shift.  The invariant at the end is the sequence-level  *)
(* meaning of reverse complement, for every ksize 1..W.                    *)
(***************************************************************************)
EXTENDS Naturals, Sequences, TLC

VARIABLES W, ksize, word, pc
vars == <<W, ksize, word, pc>>

\* input: a k-mer of ksize digits packed at the low end, zeros above
Input(w, ks) == [i \in 1..w |-> IF i > w - ks THEN <<i - (w - ks), 0>> ELSE <<0, 0>>]

\* x = (x >> g digits & mask) | (x & mask) << g digits : swap neighbouring groups of g digits
SwapGroups(x, g) == [i \in 1..Len(x) |->
                       LET o == (i - 1) % (2 * g) IN IF o < g THEN x[i + g] ELSE x[i - g]]
Complement(x) == [i \in 1..Len(x) |-> <<x[i][1], 1 - x[i][2]>>]
ShiftRight(x, n) == [i \in 1..Len(x) |-> IF i > n THEN x[i - n] ELSE <<0, 0>>]

Stages(w) == IF w = 32 THEN <<1, 2, 4, 8, 16>> ELSE <<1, 2, 4, 8, 16, 32>>

Init == /\ W \in {32, 64}
        /\ ksize \in 1..W
        /\ word = Input(W, ksize)
        /\ pc = 1

Stage == /\ pc <= Len(Stages(W))
         /\ word' = SwapGroups(word, Stages(W)[pc])
         /\ pc' = pc + 1
         /\ UNCHANGED <<W, ksize>>
Xor == /\ pc = Len(Stages(W)) + 1
       /\ word' = Complement(word)
       /\ pc' = pc + 1
       /\ UNCHANGED <<W, ksize>>
Shift == /\ pc = Len(Stages(W)) + 2
         /\ word' = ShiftRight(word, W - ksize)
         /\ pc' = pc + 1
         /\ UNCHANGED <<W, ksize>>
Next == Stage \/ Xor \/ Shift
Spec == Init /\ [][Next]_vars

Done == pc = Len(Stages(W)) + 3
\* after the swaps the word is exactly reversed
Reversed == pc = Len(Stages(W)) + 1 => \A i \in 1..W : word[i] = Input(W, ksize)[W + 1 - i]
\* result: slot (W-ksize+j) holds the complement of input digit ksize+1-j, zeros above
Correct == Done => \A i \in 1..W :
              word[i] = IF i > W - ksize THEN <<ksize + 1 - (i - (W - ksize)), 1>> ELSE <<0, 0>>

\* generate_masks(k): the two arms are exactly the low 2h digits, split in the middle
MasksCorrect == \A k \in {x \in 5..63 : x % 2 = 1} :
   LET h == (k - 1) \div 2
       lower == [i \in 1..64 |-> i > 64 - h]
       upper == [i \in 1..64 |-> i > 64 - 2 * h /\ i <= 64 - h]
   IN /\ \A i \in 1..64 : ~(lower[i] /\ upper[i])
      /\ \A i \in 1..64 : (lower[i] \/ upper[i]) = (i > 64 - (k - 1))
=============================================================================
