------------------------------- MODULE MC_Par -------------------------------
(***************************************************************************)
(* C11 at design level.                                                    *)
(*  (a) every subcommand x input kind x thread count: the pool program     *)
(*      never aborts (a program that succeeds with 1 thread succeeds with  *)
(*      any count);                                                        *)
(*  (b) every (total, threads): the recursive split tiles the samples with *)
(*      offsets equal to their start, 2^depth leaves;                      *)
(*  (c) a concurrent build: leaves append their samples one at a time into *)
(*      private dictionaries in ANY interleaving, joins OR the children in *)
(*      order; the final table is the serial one and no OR ever meets two  *)
(*      non-zero bytes.                                                    *)
(* (a) and (b) are REPLAY lines compared with the hooked real code.        *)
(***************************************************************************)
EXTENDS Par, TLC, Json

CONSTANTS MaxTotal, MaxThreads, EmitReplay

(* ---- concurrent build over NS samples, each owning KM k-mers ------------- *)
NS == 4
KmerSet == {"p", "q", "r"}
\* which k-mers each sample has, and its middle base
Has == [s \in 1..NS |-> IF s = 1 THEN {"p", "q"} ELSE IF s = 2 THEN {"p"} ELSE IF s = 3 THEN {"q", "r"} ELSE {"r"}]
Base(s) == 64 + s

VARIABLES mode, total, threads, leafs, done, dicts, joined, orClash
vars == <<mode, total, threads, leafs, done, dicts, joined, orClash>>

EmptyDict == [km \in KmerSet |-> [s \in 1..NS |-> 0]]

Init ==
   \/ /\ mode = "split" /\ total \in 1..MaxTotal /\ threads \in 1..MaxThreads
      /\ leafs = <<>> /\ done = <<>> /\ dicts = <<>> /\ joined = FALSE /\ orClash = FALSE
   \/ /\ mode = "build" /\ total = NS /\ threads \in {2, 4}
      /\ leafs = Leaves(IF threads = 2 THEN 1 ELSE 2, 0, NS)
      /\ done = [i \in 1..Len(leafs) |-> 0]
      /\ dicts = [i \in 1..Len(leafs) |-> EmptyDict]
      /\ joined = FALSE /\ orClash = FALSE

\* one append by leaf i: its next sample writes its own column in the leaf's private dict
Append1(i) ==
   /\ mode = "build" /\ ~joined /\ done[i] < leafs[i][2]
   /\ LET s == leafs[i][1] + done[i] + 1 IN
      dicts' = [dicts EXCEPT ![i] = [km \in KmerSet |-> IF km \in Has[s] THEN [@[km] EXCEPT ![s] = Base(s)] ELSE @[km]]]
   /\ done' = [done EXCEPT ![i] = @ + 1]
   /\ UNCHANGED <<mode, total, threads, leafs, joined, orClash>>
\* all leaves finished: ordered joins (merge = byte-wise OR of the rows)
Or(a, b) == IF a = 0 THEN b ELSE IF b = 0 THEN a ELSE 255        \* 255 marks a clash of two non-zero bytes
JoinAll ==
   /\ mode = "build" /\ ~joined /\ \A i \in 1..Len(leafs) : done[i] = leafs[i][2]
   /\ LET RECURSIVE Fold(_)
          Fold(i) == IF i = 1 THEN dicts[1]
                     ELSE [km \in KmerSet |-> [s \in 1..NS |-> Or(Fold(i - 1)[km][s], dicts[i][km][s])]]
          final == Fold(Len(leafs))
      IN /\ dicts' = <<final>>
         /\ orClash' = \E km \in KmerSet, s \in 1..NS : final[km][s] = 255
   /\ joined' = TRUE
   /\ UNCHANGED <<mode, total, threads, leafs, done>>
Next == JoinAll \/ \E i \in 1..Len(leafs) : Append1(i)
Spec == Init /\ [][Next]_vars

Serial == [km \in KmerSet |-> [s \in 1..NS |-> IF km \in Has[s] THEN Base(s) ELSE 0]]
BuildCorrect == joined => dicts[1] = Serial /\ ~orClash

SplitCorrect == mode = "split" =>
   LET d == Depth(total, threads)  ls == Leaves(d, 0, total) IN
   /\ Tiles(ls, total) /\ Len(ls) = 2 ^ d
   /\ (threads = 1 => d = 0) /\ (total < 10 => d = 0)

NoAbort == \A c \in Cmds, inp \in InputKinds, t \in 1..MaxThreads : Run(c, inp, t) = "ok"

EmitSplit == (EmitReplay /\ mode = "split") =>
   PrintT(<<"REPLAY", ToJson([kind |-> "split", total |-> total, threads |-> threads, depth |-> Depth(total, threads),
                              leaves |-> Leaves(Depth(total, threads), 0, total)])>>)
=============================================================================
