SPECIFICATION Spec
CONSTANTS
  Dev = {}
  NSamp = 2
  EmitReplay = TRUE
  WithPairs = TRUE
  Ancs = {1, 2}
INVARIANTS EntriesAreSites Traversal
CHECK_DEADLOCK FALSE
