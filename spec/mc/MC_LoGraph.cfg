SPECIFICATION Spec
CONSTANTS
  Dev = {}
  NSamp = 3
  EmitReplay = TRUE
INVARIANTS EntriesAreSites Traversal
CHECK_DEADLOCK FALSE
