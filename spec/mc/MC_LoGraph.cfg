SPECIFICATION Spec
CONSTANTS
  Dev = {}
  NSamp = 3
  EmitReplay = TRUE
INVARIANTS EntriesAreSites Emit
CHECK_DEADLOCK FALSE
