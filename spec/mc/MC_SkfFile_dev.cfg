SPECIFICATION Spec
CONSTANTS
  Dev = {"LoadNoWidthCheck"}
  MaxFrames = 1
  MaxPay = 1
  EmitReplay = FALSE
INVARIANTS WidthOK
CHECK_DEADLOCK FALSE
