SPECIFICATION Spec
CONSTANTS
  Dev = {}
  MaxTotal = 160
  MaxThreads = 16
  EmitReplay = TRUE
INVARIANTS BuildCorrect SplitCorrect NoAbort EmitSplit
CHECK_DEADLOCK FALSE
