------------------------------- MODULE MC_Cli -------------------------------
(***************************************************************************)
(* Design check of the command-line layer: name derivation on every path   *)
(* over a small character set up to a length bound (the derived name never *)
(* contains a '/', is a non-empty prefix of the base name or the whole     *)
(* argument, removing and re-adding the extension gives back the base      *)
(* name), sub-sampling keeps exactly the records with index divisible by   *)
(* the step.  Paths are REPLAY lines: `ska build` is run on a file at that *)
(* path and must name the sample as the model says.                        *)
(***************************************************************************)
EXTENDS Cli, TLC, Json

CONSTANTS MaxLen, EmitReplay
VARIABLES path
vars == <<path>>

Chars == {"x", "/", ".", "f", "a", "A", "s", "t", "q", "g", "z"}
Tails == { <<>>, <<".", "f", "a">>, <<".", "F", "A">>, <<".", "f", "a", "s", "t", "a">>, <<".", "f", "a", "s", "t", "q">>,
           <<".", "f", "a", "s", "t", "q", ".", "g", "z">>, <<".", "f", "a", ".", "g", "z">>, <<".", "f", "q">>, <<".", "t", "x", "t">> }
Stems == UNION {[1..n -> {"x", "/", ".", "a"}] : n \in 1..MaxLen}
Init == \E st \in Stems, tl \in Tails : path = st \o tl
Next == UNCHANGED path
Spec == Init /\ [][Next]_vars

NameSane ==
   LET nm == NameOfPath(path)  b == BaseName(path) IN
   \/ nm = path
   \/ /\ Len(nm) >= 1 /\ Len(nm) < Len(b) /\ nm = SubSeq(b, 1, Len(nm))
      /\ \A i \in 1..Len(nm) : nm[i] # "/"
      /\ SubSeq(LowerSeq(b), Len(nm) + 1, Len(b)) \in Exts

SubSampleSane == \A step \in 1..4 : \A n \in 0..6 :
   LET recs == [i \in 1..n |-> i]  s == SubSampleRecords(recs, step) IN
   /\ \A i \in 1..Len(s) : (s[i] - 1) % step = 0
   /\ Len(s) = (n + step - 1) \div step

\* only paths whose directories are all "x"/"a" names can be created safely by the replayer
Creatable == Len(BaseName(path)) > 0 /\ path[1] # "/" /\ \A i \in 1..Len(path) : path[i] = "." => (i > 1 /\ path[i - 1] # "/" /\ path[i - 1] # ".")
Emit == (EmitReplay /\ Creatable) =>
   PrintT(<<"REPLAY", ToJson([kind |-> "samplename", path |-> path, name |-> NameOfPath(path)])>>)
=============================================================================
