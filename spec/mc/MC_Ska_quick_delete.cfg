SPECIFICATION Spec
CONSTANTS
  Dev = {}
  MaxOps = 2
  OptSet = "quick"
  Focus = "delete"
  EmitReplay = TRUE
INVARIANTS WF ObsInv MergeIsJointBuild InitialMergeIsJointBuild DeleteIsBuildOfRest WeedPartition Emit
CHECK_DEADLOCK FALSE
