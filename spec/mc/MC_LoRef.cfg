SPECIFICATION Spec
CONSTANTS
  Dev = {}
  NSamp = 3
  EmitReplay = TRUE
  Lowers = {FALSE, TRUE}
  KK = 7
  Ancs = {1, 2}
INVARIANTS Positioned
CHECK_DEADLOCK FALSE
