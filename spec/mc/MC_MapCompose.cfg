SPECIFICATION Spec
CONSTANTS
  Dev = {}
  FirstContigs = "all"
  EmitReplay = TRUE
INVARIANTS Composed
CHECK_DEADLOCK FALSE
