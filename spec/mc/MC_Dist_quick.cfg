SPECIFICATION Spec
CONSTANTS
  Dev = {}
  NS = 3
  MaxRows = 2
  EmitReplay = TRUE
INVARIANTS ImplIsDecl Symmetric InRange Identical Emit
CHECK_DEADLOCK FALSE
