SPECIFICATION Spec
CONSTANTS
  Dev = {}
  Alphabet = {65, 67, 78}
  MaxLen = 7
  Ks = {5}
  Quals = {}
  Rules = {"none"}
  MinQ = 0
  EmitK = {}
INVARIANTS Consistent Refines
PROPERTY Terminates
CHECK_DEADLOCK FALSE
