SPECIFICATION Spec
CONSTANTS
  Dev = {}
  MinFreq = 2
  MaxL = 7
  MaxT = 7
  EmitReplay = TRUE
INVARIANTS HistCorrect CutoffCorrect Emit
CHECK_DEADLOCK FALSE
