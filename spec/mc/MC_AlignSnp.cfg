SPECIFICATION Spec
CONSTANTS
  Dev = {}
  EmitReplay = TRUE
  NSamp = 3
INVARIANTS Theorem Emit
CHECK_DEADLOCK FALSE
