SPECIFICATION Spec
CONSTANTS
  Dev = {}
  NSamp = 2
  MaxLen = 2
  WithSnp = TRUE
  EmitReplay = TRUE
INVARIANTS Traversal
CHECK_DEADLOCK FALSE
