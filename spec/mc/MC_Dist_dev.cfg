SPECIFICATION Spec
CONSTANTS
  Dev = {"ConstantIncludesFreq"}
  NS = 3
  MaxRows = 2
  EmitReplay = FALSE
INVARIANTS ImplIsDecl
CHECK_DEADLOCK FALSE
