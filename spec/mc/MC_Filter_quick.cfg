SPECIFICATION Spec
CONSTANTS
  Dev = {}
  Symbols2 = {65, 67, 77, 82, 45}
  NS = 2
  EmitReplay = TRUE
INVARIANTS ImplIsDecl Mono Emit
CHECK_DEADLOCK FALSE
