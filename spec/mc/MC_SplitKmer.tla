---------------------------- MODULE MC_SplitKmer ----------------------------
(***************************************************************************)
(* Design-level check of the rolling split k-mer iterator: for EVERY       *)
(* record over a small alphabet up to a length bound, the implementation-  *)
(* shaped iterator (one TLC step per call of new / get_next_kmer) yields   *)
(* exactly the declarative list of windows, and its rolling state equals   *)
(* the from-scratch state at every step.  Completed behaviours are printed *)
(* as REPLAY lines and stepped through the real SplitKmer by `skav replay`.*)
(***************************************************************************)
EXTENDS SplitKmer, TLC, Json

CONSTANTS Alphabet,     \* set of bytes
          MaxLen,       \* record lengths 0..MaxLen
          Ks,           \* set of k
          Quals,        \* set of quality bytes; {} = FASTA (no qualities)
          Rules,        \* subset of {"none","middle","strict"}
          MinQ,         \* --min-qual
          EmitK         \* REPLAY lines are printed for k in this set

VARIABLES seq, qual, k, rc, rule, st, emitted, phase
vars == <<seq, qual, k, rc, rule, st, emitted, phase>>

Seqs == UNION {[1..n -> Alphabet] : n \in 0..MaxLen}

Init == /\ seq \in Seqs
        /\ qual \in (IF Quals = {} THEN {<<>>} ELSE [1..Len(seq) -> Quals])
        /\ k \in Ks
        /\ rc \in BOOLEAN
        /\ rule \in Rules
        /\ st = NoKmer
        /\ emitted = <<>>
        /\ phase = "new"

New == /\ phase = "new"
       /\ st' = IterNew(seq, qual, k, rc, rule, MinQ)
       /\ phase' = "run"
       /\ UNCHANGED <<seq, qual, k, rc, rule, emitted>>

Yield == /\ phase = "run" /\ st.ok
         /\ emitted' = Append(emitted, IterObs(seq, qual, k, rc, rule, MinQ, st))
         /\ st' = IterRoll(seq, qual, k, rc, rule, MinQ, st)
         /\ UNCHANGED <<seq, qual, k, rc, rule, phase>>

Finish == /\ phase = "run" /\ ~st.ok
          /\ phase' = "done"
          /\ UNCHANGED <<seq, qual, k, rc, rule, st, emitted>>

Next == New \/ Yield \/ Finish
Spec == Init /\ [][Next]_vars /\ WF_vars(Next)

Decl == ObsList(seq, qual, k, rc, rule, MinQ)

\* rolling = from scratch (C16) in every reachable iterator state
Consistent == phase = "run" => RollingConsistent(seq, k, rc, st)
\* what has been yielded so far is a prefix of the declarative list
PrefixOK == phase # "new" => /\ Len(emitted) <= Len(Decl)
                             /\ emitted = SubSeq(Decl, 1, Len(emitted))
\* and at the end it is all of it (C01: incl. the window ending at the record end)
Refines == phase = "done" => emitted = Decl

\* the declarative dictionary and its linear-time characterisation agree
DictChar == phase = "done" =>
   LET pairs == ObsPairs({emitted[i] : i \in 1..Len(emitted)}) IN
   pairs # {} => DictMatchesPairs(DictOfPairs(pairs), pairs)

Emit == (phase = "done" /\ k \in EmitK) =>
   PrintT(<<"REPLAY", ToJson([kind |-> "iter", seq |-> seq, qual |-> qual, k |-> k, rc |-> rc,
                              rule |-> rule, minq |-> MinQ, obs |-> emitted])>>)

Terminates == <>(phase = "done")
=============================================================================
