----------------------------- MODULE MC_Filter -----------------------------
(***************************************************************************)
(* C06 at design level: the code-shaped filter (MergeSkaArray::filter:     *)
(* cached counts, conditional recount, site predicates, masking) against   *)
(* the declarative row predicate, for EVERY two-row table over a small     *)
(* symbol set and every setting; and monotonicity: a stricter setting      *)
(* yields a sub-multiset of the columns of a laxer one.  Each case is      *)
(* printed as a REPLAY line and executed by the real filter + write_fasta. *)
(***************************************************************************)
EXTENDS Table, TLC, Json

CONSTANTS Symbols2,      \* symbol bytes used in rows
          NS,            \* number of samples
          EmitReplay

VARIABLES tbl, setting, out, phase
vars == <<tbl, setting, out, phase>>

KmA == <<0, 0, 0, 0>>
KmB == <<0, 1, 2, 3>>
RowSet == {r \in [1..NS -> Symbols2] : ~IsAllGap(r)}
Settings == [thr : 0..NS, filter : Filters, am : BOOLEAN, mask : BOOLEAN, ng : BOOLEAN]

Init == /\ \E r1 \in RowSet, r2 \in RowSet :
              tbl = [k |-> 5, rc |-> TRUE, names |-> [i \in 1..NS |-> "s"],
                     rows |-> {<<KmA, r1>>, <<KmB, r2>>}]
        /\ setting \in Settings
        /\ out = {}
        /\ phase = "start"

Apply == /\ phase = "start"
         /\ out' = Logical(FilterImpl(Fresh(tbl), setting.thr, setting.filter, setting.am, setting.mask, setting.ng)).rows
         /\ phase' = "done"
         /\ UNCHANGED <<tbl, setting>>
Next == Apply
Spec == Init /\ [][Next]_vars

Decl(s) == FilterTable(tbl, s.thr, s.filter, s.am, s.mask, s.ng).rows

ImplIsDecl == phase = "done" => out = Decl(setting)

\* stricter settings keep a subset of the rows (rows are keyed by k-mer, so subset = sub-multiset of columns)
\* f at least as strict as g.  no-ambig-or-const implies no-const (two distinct plain symbols are two
\* distinct symbols) but NOT no-ambig: a site with two plain symbols and an ambiguity code passes it
\* (TLC refuted the stronger claim on the 3-sample universe).
StricterFilter(f, g) == g = "no-filter" \/ f = g \/ (f = "no-ambig-or-const" /\ g = "no-const")
Mono == phase = "done" =>
   \A s \in Settings :
      (/\ s.mask = setting.mask /\ s.ng = setting.ng /\ s.am = setting.am
       /\ s.thr >= setting.thr /\ StricterFilter(s.filter, setting.filter))
      => {r[1] : r \in Decl(s)} \subseteq {r[1] : r \in out}

Emit == (phase = "done" /\ EmitReplay) =>
   PrintT(<<"REPLAY", ToJson([kind |-> "filter1", rows |-> SetToSeq(tbl.rows), ns |-> NS, setting |-> setting,
                              keep |-> SetToSeq(out)])>>)
=============================================================================
