SPECIFICATION Spec
CONSTANTS
  Dev = {}
  MaxOps = 2
  OptSet = "quick"
  Focus = "all"
  EmitReplay = TRUE
INVARIANTS WF ObsInv MergeIsJointBuild InitialMergeIsJointBuild DeleteIsBuildOfRest WeedPartition Emit
CHECK_DEADLOCK FALSE
