SPECIFICATION Spec
CONSTANTS
  Dev = {"PoolStrictReinit"}
  MaxTotal = 2
  MaxThreads = 4
  EmitReplay = FALSE
INVARIANTS NoAbort
CHECK_DEADLOCK FALSE
