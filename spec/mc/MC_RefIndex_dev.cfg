SPECIFICATION Spec
CONSTANTS
  Dev = {"RepeatOffsetSkip"}
  Len1 = {5, 6}
  Len3 = {5}
  EmitReplay = FALSE
INVARIANTS RepeatLoopCorrect
CHECK_DEADLOCK FALSE
