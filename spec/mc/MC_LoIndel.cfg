SPECIFICATION Spec
CONSTANTS
  Dev = {}
  NSamp = 3
  MaxLen = 3
  WithSnp = TRUE
  EmitReplay = TRUE
  KK = 5
INVARIANTS Traversal
CHECK_DEADLOCK FALSE
