SPECIFICATION Spec
CONSTANTS
  Dev = {}
  NSamp = 3
  MaxLen = 3
  WithSnp = TRUE
  EmitReplay = TRUE
INVARIANTS Traversal
CHECK_DEADLOCK FALSE
