------------------------------ MODULE MC_Iupac ------------------------------
(***************************************************************************)
(* C15 at design level: the ambiguity codes form the union algebra over    *)
(* {A,C,G,T}.  A state is the code stored for one split k-mer together     *)
(* with the (history) set of bases observed so far; `Observe(d)` is what   *)
(* SkaDict.add_to_dict does.  The invariant says the stored code is the    *)
(* code of exactly the observed set - for every order and multiplicity of  *)
(* observations.  `Palin` does the same for a self-reverse-complement      *)
(* k-mer (add_palindrome_to_dict: W, S, N only).  The remaining algebraic  *)
(* laws are checked as state-independent invariants over the full domain.  *)
(***************************************************************************)
EXTENDS Bases, TLC

VARIABLES code, seen, pal
vars == <<code, seen, pal>>

Init == /\ pal \in BOOLEAN
        /\ \E d \in Digits :
              /\ seen = (IF pal THEN {d, CompD(d)} ELSE {d})
              /\ code = (IF pal THEN (IF d \in {0, 2} THEN 87 ELSE 83) ELSE Dec(d))   \* or_insert

\* add_to_dict: *b = IUPAC[base*256 + *b]
Observe(d) == /\ ~pal
              /\ code' = AddBase(code, d)
              /\ seen' = seen \cup {d}
              /\ UNCHANGED pal
\* add_palindrome_to_dict
PalObserve(d) == /\ pal
                 /\ code' = (IF code = 87 THEN (IF d \in {0, 2} THEN 87 ELSE 78)
                             ELSE IF code = 83 THEN (IF d \in {0, 2} THEN 78 ELSE 83)
                             ELSE 78)
                 /\ seen' = seen \cup {d, CompD(d)}
                 /\ UNCHANGED pal
Next == \E d \in Digits : Observe(d) \/ PalObserve(d)
Spec == Init /\ [][Next]_vars

CodeIsUnion == code = IupacCode(seen) /\ code = IupacCodeDef(seen)

NonEmpty == SUBSET Digits \ {{}}
FastCodeAgrees == \A S \in NonEmpty : IupacCode(S) = IupacCodeDef(S) /\ IupacSet(IupacCode(S)) = S
Codes == IupacLetters \cup {ToLower(c) : c \in IupacLetters}
UnionLaws ==
   /\ \A c \in Codes, d \in Digits : IupacSet(AddBase(c, d)) = IupacSet(ToUpper(c)) \cup {d}
   /\ \A c \in Codes, d1 \in Digits, d2 \in Digits :
         /\ AddBase(AddBase(c, d1), d2) = AddBase(AddBase(c, d2), d1)       \* commutative
         /\ AddBase(AddBase(c, d1), d1) = AddBase(c, d1)                    \* idempotent
   /\ \A c \in 0..255 : c \notin Codes => \A d \in Digits : AddBase(c, d) = 0
CompLaws ==
   /\ \A c \in Codes : IupacSet(CompCode(c)) = {CompD(x) : x \in IupacSet(ToUpper(c))}
   /\ \A c \in Codes : CompCode(CompCode(c)) = ToUpper(c)                    \* involution
   /\ \A c \in {83, 87, 78, 45} : CompCode(c) = c                            \* fixed points
   /\ \A c \in 0..255 : c \notin Codes => CompCode(c) = 45
WeightLaws ==
   \A c \in Codes : LET w == Weights6(c)  S == IupacSet(ToUpper(c)) IN
      IF ToUpper(c) = 78 THEN w = <<0, 0, 0, 0>>
      ELSE /\ w[1] + w[2] + w[3] + w[4] = 6
           /\ \A i \in 1..4 : w[i] = IF (i - 1) \in S THEN 6 \div Cardinality(S) ELSE 0
AmbigLaws == \A c \in Codes : IsAmbig(c) = (Cardinality(IupacSet(ToUpper(c))) > 1)
=============================================================================
