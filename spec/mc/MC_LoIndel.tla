----------------------------- MODULE MC_LoIndel -----------------------------
(***************************************************************************)
(* The traversal stage of `ska lo` (LoGraph!BuiltGroups) on a universe of  *)
(* INDEL scenarios: one ancestor of two, one deletion of 1..MaxLen bases   *)
(* or one duplication of the following 1..MaxLen bases (a tandem copy) at  *)
(* every position at least k from the ends, every carrier set, optionally  *)
(* one substitution 2 or k bases after it in a second carrier set.         *)
(* Design-level statements (for a lone deletion / duplication):            *)
(*   - exactly the samples' difference is found: there is an indel group   *)
(*     whose two paths spell flank+allele+flank of the two alleles, unless *)
(*     the walk cannot see it (reported as a count, not required);         *)
(*   - every indel group has exactly two paths of different length;        *)
(*   - the groups are printed for replay into the hooked `ska lo`, which   *)
(*     must build the same SNP groups and the same indel groups.           *)
(***************************************************************************)
EXTENDS LoCall, TLC, Json

CONSTANTS NSamp, MaxLen, WithSnp, EmitReplay, KK
VARIABLES anc, pos, len, dup, car, snp, phase
vars == <<anc, pos, len, dup, car, snp, phase>>

\* k = 5 with two 24-base ancestors (conformance of the model), or k = 11 - inside C18's stated domain - with a 52-base
\* ancestor whose 10-mers are unique on both strands
K == KK
Ancestors == IF KK = 5
             THEN { <<84,67,84,71,84,67,84,84,67,67,65,67,71,67,84,67,65,84,65,67,84,84,71,67>>,    \* TCTGTCTTCCACGCTCATACTTGC
                    <<84,65,65,67,67,65,67,65,65,84,65,71,67,71,65,65,71,84,67,65,71,65,67,65>> }  \* TAACCACAATAGCGAAGTCAGACA
             ELSE { <<84,84,84,67,67,84,67,65,84,71,67,65,65,84,84,67,65,65,65,65,67,67,65,84,71,84,67,67,71,84,65,65,84,71,84,65,71,71,67,71,65,65,65,84,65,71,84,65,65,65,67,67>> }
                  \* TTTCCTCATGCAATTCAAAACCATGTCCGTAATGTAGGCGAAATAGTAAACC
CarrierSets == (SUBSET (1..NSamp)) \ {{}, 1..NSamp}
Next4(b) == CASE b = 65 -> 67 [] b = 67 -> 71 [] b = 71 -> 84 [] OTHER -> 65

\* snp = <<>> (none) or <<distance after the indel position, carriers>>
\* two steps so that TLC's workers share the scenarios (initial states are evaluated by one thread)
Init == /\ anc \in Ancestors /\ pos \in K..(Len(anc) - K - 2)
        /\ len = 0 /\ dup = FALSE /\ car = {} /\ snp = <<>> /\ phase = "pick"
Next == /\ phase = "pick"
        /\ len' \in 1..MaxLen /\ pos <= Len(anc) - K - len' - 1
        /\ dup' \in BOOLEAN /\ car' \in CarrierSets
        /\ snp' \in {<<>>} \cup (IF WithSnp THEN {<<d, c>> : d \in {2, K}, c \in CarrierSets} ELSE {})
        /\ phase' = "done" /\ UNCHANGED <<anc, pos>>
Spec == Init /\ [][Next]_vars

\* sample s: the ancestor with the substitution (if carried), then the deletion of anc[pos+1..pos+len] or its duplication
WithSub(s) == IF snp # <<>> /\ s \in snp[2] /\ pos + len + snp[1] + 1 <= Len(anc)
              THEN [j \in 1..Len(anc) |-> IF j = pos + len + snp[1] + 1 THEN Next4(anc[j]) ELSE anc[j]]
              ELSE anc
SampleSeq(s) == LET a == WithSub(s) IN
            IF s \notin car THEN a
            ELSE IF dup THEN SubSeq(a, 1, pos + len) \o SubSeq(a, pos + 1, Len(a))
                 ELSE SubSeq(a, 1, pos) \o SubSeq(a, pos + len + 1, Len(a))
T == BuildTable([s \in 1..NSamp |-> <<SampleSeq(s)>>], [s \in 1..NSamp |-> "s"], K, TRUE)

MaxDepth == 4
GroupJson(G) == SetToSeq({[entry |-> g[1], exit |-> g[2], seqs |-> [i \in 1..Cardinality(g[3]) |-> SetToSeq(g[3])[i][1]]] : g \in G})
RecJson(R) == SetToSeq({[ref |-> r.ref, alt |-> r.alt, before |-> r.before, after |-> r.after, gts |-> r.gts] : r \in R})
Traversal ==
   phase = "done" =>
   LET call == LoCall(T, MaxDepth, <<1, 10>>, 2)
       FG == call.groups
       FI == call.indels
   IN /\ Assert(\A g \in FI : Cardinality(g[3]) = 2 /\ \E a \in g[3], b \in g[3] : Len(a[1]) # Len(b[1]), "IndelGroupShape")
      /\ Assert(\A g \in FG : Cardinality(g[3]) >= 2, "GroupShape")
      \* a record never has two equal alleles, and REF is carried by at least as many samples as ALT
      /\ Assert(\A r \in call.records : r.ref # r.alt, "RecordAllelesDiffer")
      /\ Assert(\A r \in call.records : Cardinality({s \in 1..NSamp : r.gts[s] = 0}) >= Cardinality({s \in 1..NSamp : r.gts[s] = 1}), "RefIsMajor")
      /\ (EmitReplay =>
            PrintT(<<"REPLAY", ToJson([kind |-> "loentries", k |-> K, samples |-> [s \in 1..NSamp |-> SampleSeq(s)],
                                       entries |-> SetToSeq(EntryNodes(T)), nodes |-> Cardinality(Nodes(T)),
                                       pre |-> FALSE, lone |-> (snp = <<>>), found |-> (call.records # {}),
                                       anc |-> anc, pos |-> pos, len |-> len, dup |-> dup, car |-> SetToSeq(car),
                                       groups |-> GroupJson(FG), indels |-> GroupJson(FI),
                                       columns |-> call.columns, records |-> RecJson(call.records), panic |-> call.panic])>>))
=============================================================================
