SPECIFICATION Spec
CONSTANTS
  Dev = {}
  MaxObs = 4
  EmitReplay = FALSE
INVARIANTS NoFalseNegativeAlways
CHECK_DEADLOCK FALSE
