SPECIFICATION Spec
CONSTANTS
  Dev = {}
  EmitReplay = FALSE
  NSamp = 2
INVARIANTS Theorem
CHECK_DEADLOCK FALSE
