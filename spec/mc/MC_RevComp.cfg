SPECIFICATION Spec
INVARIANTS Reversed Correct MasksCorrect
CHECK_DEADLOCK FALSE
