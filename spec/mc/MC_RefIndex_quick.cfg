SPECIFICATION Spec
CONSTANTS
  Dev = {}
  Len1 = {5, 6}
  Len3 = {5}
  EmitReplay = TRUE
INVARIANTS RepeatLoopCorrect IdxCorrect Emit
CHECK_DEADLOCK FALSE
