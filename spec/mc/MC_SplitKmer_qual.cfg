SPECIFICATION Spec
CONSTANTS
  Dev = {}
  Alphabet = {65, 78}
  MaxLen = 6
  Ks = {5}
  Quals = {52, 53, 54}
  Rules = {"none", "middle", "strict"}
  MinQ = 20
  EmitK = {5}
INVARIANTS Consistent PrefixOK Refines Emit
CHECK_DEADLOCK FALSE
