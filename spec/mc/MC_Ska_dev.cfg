SPECIFICATION Spec
CONSTANTS
  Dev = {"StaleCounts"}
  MaxOps = 2
  OptSet = "quick"
  EmitReplay = FALSE
INVARIANTS ObsInv
CHECK_DEADLOCK FALSE
