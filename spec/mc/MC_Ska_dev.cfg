SPECIFICATION Spec
CONSTANTS
  Dev = {"StaleCounts"}
  MaxOps = 2
  OptSet = "quick"
  Focus = "all"
  EmitReplay = FALSE
INVARIANTS ObsInv
CHECK_DEADLOCK FALSE
