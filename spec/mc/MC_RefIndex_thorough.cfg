SPECIFICATION Spec
CONSTANTS
  Dev = {}
  Len1 = {5, 6, 7}
  Len3 = {5, 6, 7}
  EmitReplay = TRUE
INVARIANTS RepeatLoopCorrect IdxCorrect Emit
CHECK_DEADLOCK FALSE
