---------------------------- MODULE MC_AlignSnp ----------------------------
(***************************************************************************)
(* C03 at design level: for samples derived from a small ancestor by       *)
(* isolated substitutions - every choice of one or two sites, alternative  *)
(* base and carrier set for three samples, each sample's contig forward or *)
(* reverse-complemented - whenever the preconditions hold (split k-mers    *)
(* unique per position over all derived samples, sites isolated) the       *)
(* declarative `align --min-freq 1` of the declarative build is exactly    *)
(* one column per variable site (up to complementing a column).  Scenarios *)
(* that satisfy the preconditions are REPLAY lines run through the CLI.    *)
(***************************************************************************)
EXTENDS Lo, TLC, Json

CONSTANTS EmitReplay, NSamp

VARIABLES anc, sites, alleles, revs, phase
vars == <<anc, sites, alleles, revs, phase>>

K == 5
H == 2
Ancestors == { <<65,67,71,84,84,71,67,65,65,84,67,71,71,65,84,65>>,      \* ACGTTGCAATCGGATA
               <<71,65,84,84,65,67,65,71,71,67,84,67,65,65,67,71,84>> }  \* GATTACAGGCTCAACGT
OtherBases(b) == {65, 67, 71, 84} \ {b}

Init == /\ anc \in Ancestors
        /\ \E S \in SUBSET (H..(15 - H)) : /\ Cardinality(S) \in {1, 2} /\ sites = SetToSortSeq(S, <)
        /\ alleles = <<>> /\ revs \in [1..NSamp -> BOOLEAN] /\ phase = "sites"

Choose == /\ phase = "sites"
          /\ \E alt \in [1..Len(sites) -> {65, 67, 71, 84}], car \in [1..Len(sites) -> (SUBSET (1..NSamp)) \ {{}, 1..NSamp}] :
                /\ \A i \in 1..Len(sites) : alt[i] # anc[sites[i] + 1]
                /\ alleles' = [i \in 1..Len(sites) |-> [s \in 1..NSamp |-> IF s \in car[i] THEN alt[i] ELSE anc[sites[i] + 1]]]
          /\ phase' = "done"
          /\ UNCHANGED <<anc, sites, revs>>
Next == Choose
Spec == Init /\ [][Next]_vars

Derived(s) == LET fwd == [j \in 1..Len(anc) |-> AlleleAt(anc, sites, alleles, s, j - 1)] IN
              [seq |-> IF revs[s] THEN RevCompBytes(fwd) ELSE fwd, off |-> 0, rev |-> revs[s]]
Samples == [s \in 1..NSamp |-> <<Derived(s)>>]
Pre == UniquePerPosition(Samples, K) /\ Isolated(sites, Samples, H)

Theorem == (phase = "done" /\ Pre) =>
   LET T == BuildTable([s \in 1..NSamp |-> <<Samples[s][1].seq>>], [s \in 1..NSamp |-> "s"], K, TRUE)
       kept == FilterTable(T, NSamp, "no-const", FALSE, FALSE, FALSE).rows
       cols == SetToSeq(kept)
   IN /\ DerivationOK(anc, sites, alleles, Samples)
      /\ BagOfSeq([j \in 1..Len(cols) |-> CanonCol(cols[j][2])]) = ExpectedBag(alleles)

Emit == (EmitReplay /\ phase = "done" /\ Pre) =>
   PrintT(<<"REPLAY", ToJson([kind |-> "snpalign", k |-> K, ancestor |-> anc, sites |-> sites, alleles |-> alleles,
                              samples |-> Samples])>>)
=============================================================================
