SPECIFICATION Spec
CONSTANTS
  Dev = {}
  ShapeSet = "thorough"
  KS = {5, 7}
  EmitReplay = TRUE
INVARIANTS Correct InRange Emit
CHECK_DEADLOCK FALSE
