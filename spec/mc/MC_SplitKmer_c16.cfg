SPECIFICATION Spec
CONSTANTS
  Dev = {}
  Alphabet = {65, 67, 84, 78}
  MaxLen = 9
  Ks = {7}
  Quals = {}
  Rules = {"none"}
  MinQ = 0
  EmitK = {}
INVARIANTS Consistent PrefixOK Refines
CHECK_DEADLOCK FALSE
