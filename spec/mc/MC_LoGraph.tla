----------------------------- MODULE MC_LoGraph -----------------------------
(***************************************************************************)
(* Design check of the graph/extremity stage of `ska lo` on a bounded      *)
(* universe: two small ancestors, every single site (and pairs >= 2k       *)
(* apart), every alternative base and carrier set for three samples, each  *)
(* sample forward or reverse-complemented.  Whenever the C17 precondition  *)
(* holds, the entry nodes of the graph built from the declarative table    *)
(* are exactly the (k-1)-mers flanking the variable sites on both strands. *)
(* Scenarios are REPLAY lines: the hooked real code must report the same   *)
(* entry nodes.                                                            *)
(***************************************************************************)
EXTENDS LoCall, TLC, Json

CONSTANTS NSamp, EmitReplay, Ancs, WithPairs
VARIABLES anc, sites, alleles, revs, phase
vars == <<anc, sites, alleles, revs, phase>>

K == 7
\* two 36-base ancestors whose 6-mers are unique on both strands, none self-reverse-complementary
AllAncestors == << <<71,67,84,65,65,65,71,65,67,65,65,84,84,65,67,65,84,65,65,67,65,84,65,67,65,67,71,84,67,65,71,67,65,67,71,65>>,    \* GCTAAAGACAATTACATAACATACACGTCAGCACGA
                   <<65,67,67,67,67,65,84,67,71,71,65,67,84,71,71,67,65,84,84,84,84,84,65,84,84,65,67,65,67,84,67,65,71,65,65,65>> >>  \* ACCCCATCGGACTGGCATTTTTATTACACTCAGAAA
Ancestors == {AllAncestors[i] : i \in Ancs}
Init == /\ anc \in Ancestors
        /\ \E S \in SUBSET (K..(Len(anc) - 1 - K)) :
              /\ Cardinality(S) \in (IF WithPairs THEN {1, 2} ELSE {1})
              /\ \A a \in S, b \in S : a # b => (IF a > b THEN a - b ELSE b - a) >= 2 * K
              /\ sites = SetToSortSeq(S, <)
        /\ alleles = <<>> /\ revs \in [1..NSamp -> BOOLEAN] /\ phase = "sites"
Choose == /\ phase = "sites"
          /\ \E alt \in [1..Len(sites) -> {65, 67, 71, 84}], car \in [1..Len(sites) -> (SUBSET (1..NSamp)) \ {{}, 1..NSamp}] :
                /\ \A i \in 1..Len(sites) : alt[i] # anc[sites[i] + 1]
                /\ alleles' = [i \in 1..Len(sites) |-> [s \in 1..NSamp |-> IF s \in car[i] THEN alt[i] ELSE anc[sites[i] + 1]]]
          /\ phase' = "done"
          /\ UNCHANGED <<anc, sites, revs>>
Next == Choose
Spec == Init /\ [][Next]_vars

Derived(s) == LET fwd == [j \in 1..Len(anc) |-> AlleleAt(anc, sites, alleles, s, j - 1)] IN
              [seq |-> IF revs[s] THEN RevCompBytes(fwd) ELSE fwd, off |-> 0, rev |-> revs[s]]
Samples == [s \in 1..NSamp |-> <<Derived(s)>>]
Pre == Pre17(sites, Samples, K)
T == BuildTable([s \in 1..NSamp |-> <<Samples[s][1].seq>>], [s \in 1..NSamp |-> "s"], K, TRUE)

MaxDepth == 4
Built == BuiltGroups(T, MaxDepth)
GroupJson(G) == SetToSeq({[entry |-> g[1], exit |-> g[2], seqs |-> [i \in 1..Cardinality(g[3]) |-> SetToSeq(g[3])[i][1]]] : g \in G})

\* entry nodes = the (k-1)-mers flanking the variable sites, on both strands
EntriesAreSites == (phase = "done" /\ Pre) => EntryNodes(T) = ExpectedEntries(anc, sites, alleles, K)
\* One evaluation of the traversal per state (TLC does not memoise operators): under the precondition
\*  - the group between the flanks of every variable site is found, with one path per allele present,
\*  - no indel group arises from substitutions alone,
\*  - the set of groups is its own mirror image (strand symmetry);
\* every scenario, with or without the precondition, is printed for replay into the hooked `ska lo`.
RecJson(R) == SetToSeq({[ref |-> r.ref, alt |-> r.alt, before |-> r.before, after |-> r.after, gts |-> r.gts] : r \in R})
\* the true column of a variable site: every sample's allele there
TrueCols == {alleles[i] : i \in VariableSites(alleles)}
CompCol8(c) == [s \in 1..Len(c) |-> CASE c[s] = 65 -> 84 [] c[s] = 84 -> 65 [] c[s] = 67 -> 71 [] c[s] = 71 -> 67 [] OTHER -> c[s]]
Traversal ==
   phase = "done" =>
      LET call == LoCall(T, MaxDepth, <<1, 10>>, 2)
          FG == call.groups
          FI == call.indels
          cols == {call.columns[i] : i \in 1..Len(call.columns)}
      IN /\ (Pre => Assert(ExpectedSiteGroups(anc, sites, alleles, K) \subseteq Plain(FG), "SiteGroupsFound"))
         /\ (Pre => Assert(FI = {}, "NoIndelsFromSnps"))
         /\ (Pre => Assert(StrandSymmetric(FG \cup FI), "Symmetric"))
         \* C17 at design level: under the precondition the called columns are exactly the true columns of the variable
         \* sites, each once, up to complement (no column twice although every site is seen from both strands)
         /\ (Pre => Assert(~call.panic /\ Len(call.columns) = Cardinality(VariableSites(alleles))
                            /\ \A c \in cols : c \in TrueCols \/ CompCol8(c) \in TrueCols, "CalledColumnsAreTheSites"))
         /\ (EmitReplay =>
               PrintT(<<"REPLAY", ToJson([kind |-> "loentries", k |-> K, samples |-> [s \in 1..NSamp |-> Samples[s][1].seq],
                                          entries |-> SetToSeq(EntryNodes(T)), nodes |-> Cardinality(Nodes(T)),
                                          pre |-> Pre, truth |-> [i \in 1..Len(alleles) |-> alleles[i]], groups |-> GroupJson(FG), indels |-> GroupJson(FI),
                                          columns |-> call.columns, records |-> RecJson(call.records), panic |-> call.panic])>>))
=============================================================================
