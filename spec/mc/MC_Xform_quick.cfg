SPECIFICATION Spec
CONSTANTS
  Dev = {}
  MaxLen1 = 6
  Alpha1 = {65, 67, 71, 84, 78}
  Len2s = {5}
  Alpha2a = {65, 84, 78}
  Alpha2b = {65, 84}
  K = 5
INVARIANTS Invariant SamplePerm
CHECK_DEADLOCK FALSE
