SPECIFICATION Spec
CONSTANTS
  Dev = {}
  MaxFrames = 3
  MaxPay = 4
  EmitReplay = TRUE
INVARIANTS WidthOK NeverDiff IntactAccepted PrefixRejected Emit
CHECK_DEADLOCK FALSE
