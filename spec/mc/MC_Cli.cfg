SPECIFICATION Spec
CONSTANTS
  MaxLen = 4
  EmitReplay = TRUE
INVARIANTS NameSane SubSampleSane Emit
CHECK_DEADLOCK FALSE
