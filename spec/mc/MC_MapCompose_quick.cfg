SPECIFICATION Spec
CONSTANTS
  Dev = {}
  FirstContigs = "some"
  EmitReplay = TRUE
INVARIANTS Composed
CHECK_DEADLOCK FALSE
