SPECIFICATION Spec
CONSTANTS
  Dev = {}
  ShapeSet = "quick"
  KS = {5}
  EmitReplay = TRUE
INVARIANTS Correct InRange Emit
CHECK_DEADLOCK FALSE
