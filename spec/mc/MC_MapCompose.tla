---------------------------- MODULE MC_MapCompose ----------------------------
(***************************************************************************)
(* C04 at design level, end to end: for every reference of a bounded       *)
(* universe (two contigs over {A,C}; the second may be empty or shorter    *)
(* than k) and every sample that is the reference with at most one         *)
(* substitution (by G, or by the ambiguity code R) or one deleted base,    *)
(* in either strand mode and with every combination of --ambig-mask and    *)
(* --repeat-mask: the COMPOSITION of the implementation-shaped parts       *)
(* (reference index in order, strand correction, incremental writer,       *)
(* repeat-coordinate loop, finalise) gives exactly the declarative         *)
(* alignment MappedAln.  Every scenario is a REPLAY line: the real         *)
(* RefSka::new + map + write_aln must print the same row.                  *)
(***************************************************************************)
EXTENDS RefMap, TLC, Json

CONSTANTS FirstContigs, EmitReplay
VARIABLES contigs, sample, rc, am, rm, phase
vars == <<contigs, sample, rc, am, rm, phase>>

K == 5
SeqsOver(alpha, n) == [1..n -> alpha]
Seconds == {<<>>, <<65, 67, 65>>, <<65, 65, 67, 65, 67>>, <<67, 65, 67, 67, 65>>, <<65, 67, 65, 65, 67, 65>>}
Firsts == IF FirstContigs = "all" THEN SeqsOver({65, 67}, 6) \cup SeqsOver({65, 67}, 7)
          ELSE {c \in SeqsOver({65, 67}, 6) : c[1] = 65 /\ c[6] = 67}

\* the sample's records: the contigs with one change
Subst(c, i, b) == [c EXCEPT ![i] = b]
Del(c, i) == SubSeq(c, 1, i - 1) \o SubSeq(c, i + 1, Len(c))
Init == /\ \E a \in Firsts, b \in Seconds : contigs = <<a, b>>
        /\ sample = <<>> /\ rc \in BOOLEAN /\ am = FALSE /\ rm = FALSE /\ phase = "ref"
\* the sample: the contigs unchanged, or with one base replaced by G or by the ambiguity code R, or one base deleted
Changed(cs) ==
   UNION {UNION {{[cs EXCEPT ![j] = Subst(cs[j], i, 71)], [cs EXCEPT ![j] = Subst(cs[j], i, 82)], [cs EXCEPT ![j] = Del(cs[j], i)]}
                 : i \in 1..Len(cs[j])} : j \in 1..Len(cs)}
Next == /\ phase = "ref"
        /\ sample' \in Changed(contigs) \cup {contigs}
        /\ am' \in BOOLEAN /\ rm' \in BOOLEAN /\ phase' = "done"
        /\ UNCHANGED <<contigs, rc>>
Spec == Init /\ [][Next]_vars

Idx == RefIndex(contigs, K, rc)
\* the sample also holds a second copy of its first record with another middle base where possible, so that ambiguity
\* codes arise in the table itself
T == BuildTable(<<sample>>, <<"s">>, K, rc)
Composed ==
   phase = "done" =>
      LET decl == MappedAln(contigs, K, Idx, T, 1, am, rm)
          impl == MapImpl(contigs, K, Idx, T, 1, am, rm)
          mapped == \E i \in 1..Len(Idx) : Idx[i].km \in Kms(T)
      IN /\ Assert(impl = decl, "MapImpl differs from MappedAln")
         /\ (EmitReplay /\ mapped =>
               PrintT(<<"REPLAY", ToJson([kind |-> "map1", k |-> K, rc |-> rc, contigs |-> contigs, ambig_mask |-> am, repeat_mask |-> rm,
                                          table |-> [k |-> K, rc |-> rc, names |-> <<"s">>, rows |-> SetToSeq({<<r[1], r[2]>> : r \in T.rows})],
                                          aln |-> decl])>>))
=============================================================================
