------------------------------ MODULE MC_Dist ------------------------------
(***************************************************************************)
(* C14 at design level: the distance pipeline as the code computes it      *)
(* (constant-site pre-filter whose count is added back to the matches,     *)
(* frequency filter, pairwise accumulation) against the declarative        *)
(* definition, for EVERY unambiguous table with NS samples and up to three *)
(* rows over {A, C, -} and every threshold; plus symmetry under sample     *)
(* permutation, identical samples at distance (0, 0), proportions in       *)
(* [0, 1].  Each case is printed as a REPLAY line and executed by the real *)
(* generic_modes::distance.                                                *)
(***************************************************************************)
EXTENDS Table, TLC, Json

CONSTANTS NS, MaxRows, EmitReplay

VARIABLES tbl, thr, res, phase
vars == <<tbl, thr, res, phase>>

KmPool == << <<0,0,0,0>>, <<0,1,2,3>>, <<3,3,2,1>> >>
RowSet == {r \in [1..NS -> {65, 67, 45}] : ~IsAllGap(r)}
Tables == UNION {{ [k |-> 5, rc |-> TRUE, names |-> [i \in 1..NS |-> "s"],
                    rows |-> {<<KmPool[j], f[j]>> : j \in 1..n}] : f \in [1..n -> RowSet]} : n \in 1..MaxRows}
Pairs == {<<i, j>> \in (1..NS) \X (1..NS) : i < j}

Init == tbl \in Tables /\ thr \in 0..NS /\ res = <<>> /\ phase = "start"
Compute == /\ phase = "start"
           /\ res' = [p \in Pairs |-> DistanceImpl(tbl, p[1], p[2], thr)]
           /\ phase' = "done"
           /\ UNCHANGED <<tbl, thr>>
Next == Compute
Spec == Init /\ [][Next]_vars

ImplIsDecl == phase = "done" => \A p \in Pairs : res[p] = Dist(tbl, p[1], p[2], thr)
Symmetric == phase = "done" => \A p \in Pairs : Dist(tbl, p[1], p[2], thr) = Dist(tbl, p[2], p[1], thr)
InRange == phase = "done" => \A p \in Pairs : res[p][2] <= res[p][3]
Identical == phase = "done" => \A p \in Pairs :
   (\A r \in tbl.rows : r[2][p[1]] = r[2][p[2]]) => res[p][1] = 0 /\ res[p][2] = 0

Emit == (phase = "done" /\ EmitReplay) =>
   PrintT(<<"REPLAY", ToJson([kind |-> "dist1", ns |-> NS, rows |-> SetToSeq(tbl.rows), thr |-> thr,
                              pairs |-> [i \in 1..Cardinality(Pairs) |->
                                           LET p == SetToSeq(Pairs)[i] IN <<p[1], p[2], res[p][1], res[p][2], res[p][3]>>]])>>)
=============================================================================
