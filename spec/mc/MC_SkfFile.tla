----------------------------- MODULE MC_SkfFile -----------------------------
(***************************************************************************)
(* State machine of one .skf file on disk (C09 width dispatch, C19 damage).*)
(* A writer saves a file in steps (create/truncate, one write per unit,    *)
(* close); it may crash after any step; after a completed save one bit may *)
(* flip; then a subcommand opens the file (dispatch over both widths) and  *)
(* loads it.  Invariants: the width used to read equals the width written  *)
(* (C09); a damaged file is rejected or decodes to the original (C19).     *)
(* An in-place overwrite (delete / weed without -o) starts with the same   *)
(* truncating create, so what a crash leaves behind is a prefix of the NEW *)
(* file and the old content is gone - the model makes that explicit.       *)
(***************************************************************************)
EXTENDS SkfFile, TLC, Json

CONSTANTS MaxFrames, MaxPay, EmitReplay

VARIABLES meta, nfr, npay, written, pc, effect, verdict, readas
vars == <<meta, nfr, npay, written, pc, effect, verdict, readas>>

Total == Len(Units(nfr, npay))

Init == /\ \E k \in {31, 33, 35, 63}, fits \in BOOLEAN : meta = SavedFile(k, fits)
        /\ nfr \in 1..MaxFrames /\ npay \in 1..MaxPay
        /\ written = 0 /\ pc = "create" /\ effect = "none" /\ verdict = "none" /\ readas = 0

Create == pc = "create" /\ written' = 0 /\ pc' = "writing" /\ UNCHANGED <<meta, nfr, npay, effect, verdict, readas>>
WriteUnit == /\ pc = "writing" /\ written < Total
             /\ written' = written + 1
             /\ UNCHANGED <<meta, nfr, npay, pc, effect, verdict, readas>>
Close == /\ pc = "writing" /\ written = Total /\ pc' = "closed"
         /\ UNCHANGED <<meta, nfr, npay, written, effect, verdict, readas>>
Crash == /\ pc = "writing" /\ written < Total /\ pc' = "crashed"
         /\ UNCHANGED <<meta, nfr, npay, written, effect, verdict, readas>>
Flip == /\ pc = "closed" /\ effect = "none"
        /\ \E i \in 1..Total : \E ef \in FlipEffects(Units(nfr, npay)[i]) : effect' = ef
        /\ pc' = "flipped"
        /\ UNCHANGED <<meta, nfr, npay, written, verdict, readas>>
Load == /\ pc \in {"closed", "crashed", "flipped"}
        /\ readas' = Dispatch(meta)
        /\ verdict' = IF readas' = 0 THEN "rejected" ELSE LoadDamaged(nfr, npay, written, effect)
        /\ pc' = "loaded"
        /\ UNCHANGED <<meta, nfr, npay, written, effect>>
Next == Create \/ WriteUnit \/ Close \/ Crash \/ Flip \/ Load
Spec == Init /\ [][Next]_vars

WidthOK == pc = "loaded" /\ readas # 0 => readas = meta.width
NeverDiff == pc = "loaded" => verdict \in {"rejected", "same"}
IntactAccepted == pc = "loaded" /\ written = Total /\ effect = "none" => verdict = "same" /\ readas = meta.width
PrefixRejected == pc = "loaded" /\ written < Total => verdict = "rejected"

Emit == (EmitReplay /\ pc = "loaded" /\ written = Total /\ effect = "none" /\ nfr = 1 /\ npay = 1) =>
   PrintT(<<"REPLAY", ToJson([kind |-> "dispatchcase", k |-> meta.k, fits64 |-> meta.fits64, width |-> meta.width,
                              accept64 |-> LoadAccepts(meta, 64), accept128 |-> LoadAccepts(meta, 128)])>>)
=============================================================================
