SPECIFICATION Spec
CONSTANTS
  Dev = {}
  NSamp = 2
  EmitReplay = TRUE
INVARIANTS EntriesAreSites Emit
CHECK_DEADLOCK FALSE
