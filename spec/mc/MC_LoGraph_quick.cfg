SPECIFICATION Spec
CONSTANTS
  Dev = {}
  NSamp = 2
  EmitReplay = TRUE
  WithPairs = FALSE
  Ancs = {2}
INVARIANTS EntriesAreSites Traversal
CHECK_DEADLOCK FALSE
