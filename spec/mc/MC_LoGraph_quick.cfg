SPECIFICATION Spec
CONSTANTS
  Dev = {}
  NSamp = 2
  EmitReplay = TRUE
  Ancs = {2}
INVARIANTS EntriesAreSites Traversal
CHECK_DEADLOCK FALSE
