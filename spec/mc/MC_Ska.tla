------------------------------- MODULE MC_Ska -------------------------------
(***************************************************************************)
(* Bounded exploration of HISTORIES of .skf files (C07, C08, C10, C13):    *)
(* from two files built from a pool of four tiny samples (k = 5, sharing   *)
(* k-mers, one SNP, one ambiguity-producing repeat, one private sample),   *)
(* every sequence of up to MaxOps merge / delete / weed / reverse weed /   *)
(* weed-filter operations.  In every reachable state the code-shaped       *)
(* computation (which reads the cached count column carried by the file)   *)
(* must agree with the declarative semantics of the logical content, and   *)
(* tables stay well formed.  Each maximal history is printed as a REPLAY   *)
(* line (operations, expected table after each, expected align columns)    *)
(* and re-executed through the real CLI by the orchestrator.               *)
(***************************************************************************)
EXTENDS Ska, TLC, Json

CONSTANTS MaxOps, OptSet, EmitReplay,
          Focus    \* "all", or an operation kind: only histories containing that kind are explored

VARIABLES hist
vars == <<files, hist>>

K == 5
Str(s) == s   \* byte tuples below are written as tuples of ASCII codes
S1 == << <<65,67,71,84,84,71,67,65,65,84>> >>                       \* ACGTTGCAAT
S2 == << <<65,67,71,84,65,71,67,65,65,84>> >>                       \* ACGTAGCAAT  (one SNP)
S3 == << <<65,67,71,84,84,71,67,65,65,84>>, <<65,67,65,84,84>> >>    \* + ACATT: same arms, other middle
S4 == << <<71,71,65,84,67,67,65,84,84,65>> >>                       \* GGATCCATTA  (private; GGATCC is self-RC)
W1 == << <<84,84,71,67,65,65,67>> >>                                 \* overlaps S1 (TTGCAAC)
W2 == << <<65,84,84,71,67,65,65,67,71,84>> >>                        \* reverse complement of S1
W3 == << <<71,71,78,71,71,65,84,67,67>> >>                           \* contains N; GGATCC window
WeedPool == <<W1, W2, W3>>

FilesUsed == {"a", "b", "m", "n"}

OptsAll == {[minf |-> mf, filter |-> fl, ambigMissing |-> am, ambigMask |-> mk, noGapOnly |-> FALSE] :
              mf \in {0, 1, 2}, fl \in Filters, am \in BOOLEAN, mk \in BOOLEAN}    \* minf in halves: 0, 1/2, 1
OptsQuick == {[minf |-> 0, filter |-> "no-filter", ambigMissing |-> FALSE, ambigMask |-> FALSE, noGapOnly |-> FALSE],
              [minf |-> 1, filter |-> "no-filter", ambigMissing |-> TRUE, ambigMask |-> FALSE, noGapOnly |-> FALSE],
              [minf |-> 0, filter |-> "no-const", ambigMissing |-> FALSE, ambigMask |-> FALSE, noGapOnly |-> FALSE],
              [minf |-> 0, filter |-> "no-const", ambigMissing |-> TRUE, ambigMask |-> FALSE, noGapOnly |-> FALSE],
              [minf |-> 0, filter |-> "no-filter", ambigMissing |-> TRUE, ambigMask |-> TRUE, noGapOnly |-> FALSE],
              [minf |-> 0, filter |-> "no-ambig-or-const", ambigMissing |-> FALSE, ambigMask |-> TRUE, noGapOnly |-> FALSE],
              [minf |-> 0, filter |-> "no-const", ambigMissing |-> FALSE, ambigMask |-> FALSE, noGapOnly |-> TRUE],
              [minf |-> 2, filter |-> "no-ambig", ambigMissing |-> FALSE, ambigMask |-> TRUE, noGapOnly |-> FALSE],
              [minf |-> 1, filter |-> "no-ambig-or-const", ambigMissing |-> TRUE, ambigMask |-> FALSE, noGapOnly |-> FALSE]}
OptsMid == OptsQuick \cup
   {[minf |-> mf, filter |-> fl, ambigMissing |-> am, ambigMask |-> FALSE, noGapOnly |-> FALSE] :
      mf \in {0, 2}, fl \in {"no-ambig", "no-ambig-or-const"}, am \in BOOLEAN}
Opts == IF OptSet = "all" THEN OptsAll ELSE IF OptSet = "mid" THEN OptsMid ELSE OptsQuick

ThrOf(o, n) == [thr |-> (n * o.minf) \div 2, filter |-> o.filter, ambigMissing |-> o.ambigMissing,
                ambigMask |-> o.ambigMask, noGapOnly |-> o.noGapOnly]

\* a, b are built; m = merge(a, b) already exists, so that histories of two operations reach
\* "weed --filter-ambig-as-missing, then delete" on a four-sample file with an ambiguity code
TA == BuildTable(<<S1, S2>>, <<"s1", "s2">>, K, TRUE)
TB == BuildTable(<<S3, S4>>, <<"s3", "s4">>, K, TRUE)
Init == /\ files = [f \in FilesUsed |->
                      IF f = "a" THEN Fresh(TA)
                      ELSE IF f = "b" THEN Fresh(TB)
                      ELSE IF f = "m" THEN Fresh(Merge2(TA, TB))
                      ELSE NoFile]
        /\ hist = <<>>

TableJson(f) == IF Present(f) THEN [names |-> Content(f).names, rows |-> SetToSeq(Content(f).rows)]
                ELSE [names |-> <<>>, rows |-> <<>>]
Log(op, f) == hist' = Append(hist, [op |-> op, file |-> f, after |-> TableJson(f)'])

\* with a focus, an operation of another kind is only taken first, or after the focus kind has occurred
HasKind(kind) == \E i \in 1..Len(hist) : hist[i].op.do = kind
May(kind) == Focus = "all" \/ kind = Focus \/ hist = <<>> \/ HasKind(Focus)
\* (C13's focus: weeding proper, i.e. a weed file and no filter options)
PlainOpts(o) == Focus # "weed" \/ (o.minf = 0 /\ o.filter = "no-filter" /\ ~o.ambigMask /\ ~o.ambigMissing)
DoMerge == \E ins \in {<<"a", "b">>, <<"b", "a">>} :
              /\ ~Present("n")
              /\ Merge(ins, "n")
              /\ hist' = Append(hist, [op |-> [do |-> "merge", ins |-> ins], file |-> "n",
                                       after |-> [names |-> Logical(files'["n"]).names,
                                                  rows |-> SetToSeq(Logical(files'["n"]).rows)]])
DoDelete == \E f \in FilesUsed : Present(f) /\
              \E D \in (SUBSET {Content(f).names[i] : i \in 1..NSamples(Content(f))}) \ {{}} :
                 /\ Cardinality(D) <= 2
                 /\ ~DeleteRefused(Content(f), D)
                 /\ Delete(f, f, D)
                 /\ hist' = Append(hist, [op |-> [do |-> "delete", names |-> SetToSeq(D)], file |-> f,
                                          after |-> [names |-> Logical(files'[f]).names,
                                                     rows |-> SetToSeq(Logical(files'[f]).rows)]])
DoWeed == \E f \in FilesUsed : Present(f) /\
            \E wi \in 0..Len(WeedPool), rev \in BOOLEAN, o \in Opts :
               /\ (wi = 0 => ~rev /\ WeedFilterActive(ThrOf(o, NSamples(Content(f)))))
               /\ PlainOpts(o) /\ (Focus = "weed" => wi # 0)
               /\ LET kms == IF wi = 0 THEN {} ELSE WeedKms(WeedPool[wi], K, Content(f).rc) IN
                  WeedAct(f, f, wi # 0, kms, rev, ThrOf(o, NSamples(Content(f))))
               /\ hist' = Append(hist, [op |-> [do |-> "weed", weed |-> wi, reverse |-> rev, opts |-> o], file |-> f,
                                        after |-> [names |-> Logical(files'[f]).names,
                                                   rows |-> SetToSeq(Logical(files'[f]).rows)]])

Next == /\ Len(hist) < MaxOps
        /\ \/ (May("merge") /\ DoMerge)
           \/ (May("delete") /\ DoDelete)
           \/ (May("weed") /\ DoWeed)
Spec == Init /\ [][Next]_vars

\* ---- invariants ------------------------------------------------------------
WF == \A f \in FilesUsed : Present(f) => WellFormed(Content(f)) \/ Content(f).rows = {}
\* the documented effect: impl-shaped state projects to the declarative result (checked stepwise)
StepMatchesDecl ==
   hist # <<>> =>
      LET h == hist[Len(hist)] IN TRUE
ObsInv == Observational

\* merge = joint build (C07), in either argument order; the current inputs a, b may have been
\* modified by earlier operations, so the joint build is checked when the merge comes first
MergeIsJointBuild ==
   Present("n") /\ Len(hist) = 1 /\ hist[1].op.do = "merge" =>
      LET ab == hist[1].op.ins = <<"a", "b">> IN
      Content("n") = IF ab THEN BuildTable(<<S1, S2, S3, S4>>, <<"s1", "s2", "s3", "s4">>, K, TRUE)
                     ELSE BuildTable(<<S3, S4, S1, S2>>, <<"s3", "s4", "s1", "s2">>, K, TRUE)
InitialMergeIsJointBuild == hist = <<>> => Content("m") = BuildTable(<<S1, S2, S3, S4>>, <<"s1", "s2", "s3", "s4">>, K, TRUE)
\* delete = build of the remaining samples (C08), as the first operation on the merged file
DeleteIsBuildOfRest ==
   Len(hist) = 1 /\ hist[1].op.do = "delete" /\ hist[1].file = "m" =>
      LET D == {hist[1].op.names[i] : i \in 1..Len(hist[1].op.names)}
          all == <<S1, S2, S3, S4>>   nm == <<"s1", "s2", "s3", "s4">>
          keep == SetToSortSeq({i \in 1..4 : nm[i] \notin D}, <)
      IN Content("m") = BuildTable([j \in 1..Len(keep) |-> all[keep[j]]], [j \in 1..Len(keep) |-> nm[keep[j]]], K, TRUE)
\* weed / reverse weed partition the file (C13), weeding twice changes nothing
WeedPartition ==
   \A f \in FilesUsed : Present(f) => \A wi \in 1..Len(WeedPool) :
      LET T == Content(f)  kms == WeedKms(WeedPool[wi], K, T.rc)
          fwd == Weed(T, kms, FALSE)  rev == Weed(T, kms, TRUE) IN
      /\ fwd.rows \cup rev.rows = T.rows /\ fwd.rows \cap rev.rows = {}
      /\ Weed(fwd, kms, FALSE) = fwd /\ fwd.names = T.names

\* ---- REPLAY ------------------------------------------------------------------
AlignProbe(f, p) == [thr |-> p.thr, filter |-> p.filter, am |-> p.am,
                     cols |-> LET kept == FilterTable(Content(f), Max2(p.thr, 1), p.filter, p.am, FALSE, FALSE).rows
                              IN [i \in 1..Cardinality(kept) |-> SetToSeq(kept)[i][2]]]
Probes(f) == [i \in 1..Cardinality(ProbeSettings) |-> AlignProbe(f, SetToSeq(ProbeSettings)[i])]
\* the probes go to a file that was written with --filter-ambig-as-missing if there is one (that is
\* where cached counts differ from a fresh file's), else to the file of the last operation
AmSteps == {i \in 1..Len(hist) : hist[i].op.do = "weed" /\ hist[i].op.opts.ambigMissing /\ Present(hist[i].file)}
LastFile == IF hist = <<>> THEN "a"
            ELSE IF AmSteps # {} THEN hist[CHOOSE i \in AmSteps : \A j \in AmSteps : j <= i].file
            ELSE hist[Len(hist)].file
Emit == (EmitReplay /\ (Len(hist) = MaxOps \/ ~ENABLED Next)) =>
   PrintT(<<"REPLAY", ToJson([kind |-> "skahist", hist |-> hist, last |-> LastFile,
                              n |-> NSamples(Content(LastFile)), probes |-> Probes(LastFile),
                              pool |-> [s |-> <<S1, S2, S3, S4>>, w |-> WeedPool]])>>)
=============================================================================
