---------------------------- MODULE MC_AlnWriter ----------------------------
(***************************************************************************)
(* C04 at design level: the incremental pseudo-alignment writer.  For      *)
(* every contig shape of the configured set, every ordered subset of       *)
(* mapped centres is written (one TLC step per write_split_kmer call),     *)
(* then finalise; the output must be exactly the union-of-windows          *)
(* definition (middle base at a centre, reference base within H of a       *)
(* centre on the same contig, '-' elsewhere, then the repeat mask).        *)
(* Every completed behaviour is a REPLAY line stepped through the real     *)
(* AlnWriter (scalars after each call + final sequence).                   *)
(***************************************************************************)
EXTENDS RefMap, TLC, Json

CONSTANTS ShapeSet,      \* "quick" | "thorough"
          KS,            \* set of k (5 -> H = 2, 7 -> H = 3)
          EmitReplay

VARIABLES shape, k, mask, reps, w, writes, hist, phase
vars == <<shape, k, mask, reps, w, writes, hist, phase>>

LensQuick == {0, 1, 4, 5, 6, 8}
LensThorough == {0, 1, 3, 4, 5, 6, 7, 9}
Lens == IF ShapeSet = "quick" THEN LensQuick ELSE LensThorough
Shapes == {<<a>> : a \in Lens} \cup {<<a, b>> : a \in Lens, b \in Lens}
          \cup (IF ShapeSet = "quick" THEN {<<6, 1, 5>>, <<5, 0, 6>>, <<4, 5, 5>>}
                ELSE {<<a, b, c>> : a \in {4, 5, 7}, b \in {0, 1, 3, 5}, c \in {5, 6, 9}})

\* reference bytes by absolute index: A,C,G cycling, every fifth lower case
ByteAt(a) == LET u == <<65, 67, 71>>[(a % 3) + 1] IN IF a % 5 = 4 THEN ToLower(u) ELSE u
ContigsOf(sh) == [c \in 1..Len(sh) |-> [x \in 1..sh[c] |-> ByteAt(ContigOffset([i \in 1..Len(sh) |-> [j \in 1..sh[i] |-> 0]], c - 1) + x - 1)]]
MidOf(p) == IF p % 3 = 0 THEN 82 ELSE 84      \* R (ambiguous) or T
contigs == ContigsOf(shape)
H == Half(k)
Total == TotalLen(contigs)

Init == /\ shape \in Shapes /\ k \in KS /\ mask \in BOOLEAN
        /\ reps \in {{}, {x \in 0..40 : x % 4 = 1}}
        /\ w = WNew(ContigsOf(shape), k)
        /\ writes = <<>> /\ hist = <<>> /\ phase = "writing"

After(c, p) == IF writes = <<>> THEN TRUE
               ELSE LET l == writes[Len(writes)] IN IF c > l[2] THEN TRUE ELSE (c = l[2] /\ p > l[1])
Write == /\ phase = "writing"
         /\ \E c \in 0..(Len(shape) - 1) : \E p \in 0..(shape[c + 1] - 1) :
               /\ p >= H /\ p + H <= shape[c + 1] - 1 /\ After(c, p)
               /\ w' = WWrite(w, contigs, k, p, c, MidOf(p), mask)
               /\ writes' = Append(writes, <<p, c, MidOf(p)>>)
               /\ hist' = Append(hist, WScalars(w'))
         /\ UNCHANGED <<shape, k, mask, reps, phase>>
Finalise == /\ phase = "writing"
            /\ w' = WFinalise(w, contigs, k, {x \in reps : x < Total})
            /\ hist' = Append(hist, WScalars(w'))
            /\ phase' = "done"
            /\ UNCHANGED <<shape, k, mask, reps, writes>>
Next == Write \/ Finalise
Spec == Init /\ [][Next]_vars

Correct == phase = "done" => w.out = ExpectOut(contigs, k, writes, mask, {x \in reps : x < Total})
\* nothing is ever written outside the contig being processed, and indices stay in range
InRange == /\ w.cu <= Len(shape) /\ w.of <= Total
           /\ (w.cu < Len(shape) => w.lw <= shape[w.cu + 1])

Emit == (EmitReplay /\ phase = "done") =>
   PrintT(<<"REPLAY", ToJson([kind |-> "aln", k |-> k, contigs |-> contigs, repeats |-> SetToSortSeq({x \in reps : x < Total}, <),
                              mask_ambig |-> mask, writes |-> writes, states |-> hist, out |-> w.out])>>)
=============================================================================
