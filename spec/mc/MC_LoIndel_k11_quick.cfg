SPECIFICATION Spec
CONSTANTS
  Dev = {}
  NSamp = 2
  MaxLen = 2
  WithSnp = FALSE
  EmitReplay = TRUE
  KK = 11
INVARIANTS Traversal
CHECK_DEADLOCK FALSE
