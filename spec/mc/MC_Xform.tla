------------------------------ MODULE MC_Xform ------------------------------
(***************************************************************************)
(* C02 at design level: the declarative dictionary is invariant under      *)
(* reverse-complementing any subset of records (strands merged), permuting *)
(* records and changing letter case, for every record set of a bounded     *)
(* universe.  One TLC step applies one transformation.                     *)
(***************************************************************************)
EXTENDS Table, TLC

CONSTANTS MaxLen1, Alpha1, Len2s, Alpha2a, Alpha2b, K

VARIABLES recs, rc, new, kind
vars == <<recs, rc, new, kind>>

Seqs(alpha, lens) == UNION {[1..n -> alpha] : n \in lens}
RecSets == {<<r>> : r \in Seqs(Alpha1, 0..MaxLen1)}
           \cup {<<r1, r2>> : r1 \in Seqs(Alpha2a, Len2s), r2 \in Seqs(Alpha2b, {K})}

Lower(s) == [i \in 1..Len(s) |-> ToLower(s[i])]
Alt(s, par) == [i \in 1..Len(s) |-> IF i % 2 = par THEN ToLower(s[i]) ELSE s[i]]

Init == recs \in RecSets /\ rc \in BOOLEAN /\ new = recs /\ kind = "orig"

RevSome == /\ rc
           /\ \E S \in (SUBSET (1..Len(recs))) \ {{}} :
                 new' = [i \in 1..Len(recs) |-> IF i \in S THEN RevCompBytes(recs[i]) ELSE recs[i]]
           /\ kind' = "revcomp"
Swap == /\ Len(recs) = 2 /\ new' = <<recs[2], recs[1]>> /\ kind' = "permute"
Case == /\ \E m \in {"lower", "alt0", "alt1"} :
              new' = [i \in 1..Len(recs) |-> IF m = "lower" THEN Lower(recs[i])
                                            ELSE Alt(recs[i], IF m = "alt0" THEN 0 ELSE 1)]
        /\ kind' = "case"
Next == kind = "orig" /\ (RevSome \/ Swap \/ Case) /\ UNCHANGED <<recs, rc>>
Spec == Init /\ [][Next]_vars

Pairs(x) == ObsPairs(AllFaObs(x, K, rc))
Invariant == Pairs(new) = Pairs(recs)
\* the table of permuted samples is the column-permuted table
SamplePerm == (Len(recs) = 2 /\ kind = "orig") =>
   LET T == BuildTable(<<<<recs[1]>>, <<recs[2]>>>>, <<"a", "b">>, K, rc)
       U == BuildTable(<<<<recs[2]>>, <<recs[1]>>>>, <<"b", "a">>, K, rc)
   IN U.rows = {<<r[1], <<r[2][2], r[2][1]>>>> : r \in T.rows}
=============================================================================
