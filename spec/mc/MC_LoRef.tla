------------------------------ MODULE MC_LoRef ------------------------------
(***************************************************************************)
(* `ska lo -r` (LoCall!LoCallRef) on a bounded universe at k = 7: two      *)
(* 36-base ancestors with unique 6-mers, one substituted site at least k   *)
(* from the ends, every alternative base and carrier set, samples forward  *)
(* or reverse-complemented, the reference = the ancestor or its reverse    *)
(* complement, optionally in lower case.                                   *)
(* Design-level statement (C17 with a reference): when the call places the *)
(* site at all it places it at its true coordinate with the true alleles   *)
(* (complemented when the reference is the other strand), the VCF record   *)
(* has REF = the reference base, and the pseudo-genomes are the reference  *)
(* with each sample's allele.  Every scenario is replayed into the real    *)
(* `ska lo -r`: SNP alignment, VCF and pseudo-genomes must be the model's. *)
(***************************************************************************)
EXTENDS LoCall, TLC, Json

CONSTANTS NSamp, EmitReplay, Ancs, Lowers, KK
VARIABLES anc, site, alleles, revs, refRc, refLower, phase
vars == <<anc, site, alleles, revs, refRc, refLower, phase>>

\* k = 7 (two 36-base ancestors: conformance of LoCallRef) or k = 15 - where C17 covers the reference mode - with one
\* 50-base ancestor whose 14-mers are unique on both strands
K == KK
AllAncestors == << <<71,67,84,65,65,65,71,65,67,65,65,84,84,65,67,65,84,65,65,67,65,84,65,67,65,67,71,84,67,65,71,67,65,67,71,65>>,
                   <<65,67,67,67,67,65,84,67,71,71,65,67,84,71,71,67,65,84,84,84,84,84,65,84,84,65,67,65,67,84,67,65,71,65,65,65>> >>
Ancestor15 == <<67,65,65,67,67,65,65,67,71,67,65,71,84,71,71,84,71,71,67,67,71,71,67,71,84,67,84,84,84,65,84,71,84,71,84,84,65,84,65,67,67,67,65,71,84,67,65,65,84,65>>   \* CAACCAACGCAGTGGTGGCCGGCGTCTTTATGTGTTATACCCAGTCAATA
Ancestors == IF KK = 7 THEN {AllAncestors[i] : i \in Ancs} ELSE {Ancestor15}

Init == /\ anc \in Ancestors /\ site \in K..((IF KK = 7 THEN Len(AllAncestors[1]) ELSE Len(Ancestor15)) - 1 - K)
        /\ revs \in [1..NSamp -> BOOLEAN] /\ refRc \in BOOLEAN /\ refLower \in Lowers
        /\ alleles = <<>> /\ phase = "site"
Next == /\ phase = "site"
        /\ \E alt \in {65, 67, 71, 84}, car \in (SUBSET (1..NSamp)) \ {{}, 1..NSamp} :
              /\ alt # anc[site + 1]
              /\ alleles' = << [s \in 1..NSamp |-> IF s \in car THEN alt ELSE anc[site + 1]] >>
        /\ phase' = "done" /\ UNCHANGED <<anc, site, revs, refRc, refLower>>
Spec == Init /\ [][Next]_vars

Fwd(s) == [j \in 1..Len(anc) |-> IF j = site + 1 THEN alleles[1][s] ELSE anc[j]]
SampleSeq(s) == IF revs[s] THEN RevCompBytes(Fwd(s)) ELSE Fwd(s)
Lower(b) == b + 32
Reference == LET r == IF refRc THEN RevCompBytes(anc) ELSE anc IN IF refLower THEN [j \in 1..Len(r) |-> Lower(r[j])] ELSE r
T == BuildTable([s \in 1..NSamp |-> <<SampleSeq(s)>>], [s \in 1..NSamp |-> "s"], K, TRUE)
Pre == Pre17(<<site>>, [s \in 1..NSamp |-> << [seq |-> SampleSeq(s), off |-> 0, rev |-> revs[s]] >>], K)

Comp8(c) == CASE c = 65 -> 84 [] c = 84 -> 65 [] c = 67 -> 71 [] c = 71 -> 67 [] OTHER -> c
\* the site's coordinate (0-based) and true column in the orientation of the reference
TruePos == IF refRc THEN Len(anc) - 1 - site ELSE site
TrueCol == IF refRc THEN [s \in 1..NSamp |-> Comp8(alleles[1][s])] ELSE alleles[1]
RefAt(x) == LET r == IF refRc THEN RevCompBytes(anc) ELSE anc IN r[x + 1]
VcfJson(v) == [i \in 1..Len(v) |-> [pos |-> v[i].pos, ref |-> v[i].ref, alt |-> v[i].alt, gts |-> v[i].gts]]
Positioned ==
   phase = "done" =>
      LET call == LoCallRef(T, 4, <<1, 10>>, 2, Reference) IN
      /\ (Pre => Assert(~call.panic, "NoPanic"))
      \* placed at all => placed at the true coordinate with the true alleles, REF = the reference base
      /\ (Pre => Assert(Len(call.vcf) <= 1, "AtMostTheSite"))
      /\ (Pre /\ Len(call.vcf) = 1 =>
             Assert(call.vcf[1].pos = TruePos + 1 /\ call.columns[1] = TrueCol /\ call.vcf[1].ref = RefAt(TruePos), "TrueCoordinateAndAlleles"))
      \* pseudo-genomes: the reference with the sample's allele at the site
      /\ (Pre /\ Len(call.vcf) = 1 =>
             Assert(\A s \in 1..NSamp : call.pseudo[s] = [x \in 1..Len(anc) |-> IF x = TruePos + 1 THEN TrueCol[s] ELSE RefAt(x - 1)], "PseudoGenomes"))
      /\ (EmitReplay =>
            PrintT(<<"REPLAY", ToJson([kind |-> "loref", k |-> K, samples |-> [s \in 1..NSamp |-> SampleSeq(s)], ref |-> Reference,
                                       pre |-> Pre, placed |-> Len(call.vcf), panic |-> call.panic, truepos |-> TruePos, truecol |-> TrueCol,
                                       trueref |-> RefAt(TruePos),
                                       columns |-> call.columns, vcf |-> VcfJson(call.vcf), pseudo |-> call.pseudo])>>))
=============================================================================
