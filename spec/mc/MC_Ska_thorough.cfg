SPECIFICATION Spec
CONSTANTS
  Dev = {}
  MaxOps = 3
  OptSet = "quick"
  EmitReplay = TRUE
INVARIANTS WF ObsInv MergeIsJointBuild InitialMergeIsJointBuild DeleteIsBuildOfRest WeedPartition Emit
CHECK_DEADLOCK FALSE
