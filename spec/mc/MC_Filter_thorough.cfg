SPECIFICATION Spec
CONSTANTS
  Dev = {}
  Symbols2 = {65, 67, 77, 78, 45}
  NS = 3
  EmitReplay = TRUE
INVARIANTS ImplIsDecl Mono Emit
CHECK_DEADLOCK FALSE
