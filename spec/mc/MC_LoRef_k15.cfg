SPECIFICATION Spec
CONSTANTS
  Dev = {}
  NSamp = 2
  EmitReplay = TRUE
  Lowers = {FALSE}
  KK = 15
  Ancs = {1}
INVARIANTS Positioned
CHECK_DEADLOCK FALSE
