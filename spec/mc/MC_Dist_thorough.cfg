SPECIFICATION Spec
CONSTANTS
  Dev = {}
  NS = 3
  MaxRows = 3
  EmitReplay = TRUE
INVARIANTS ImplIsDecl Symmetric InRange Identical Emit
CHECK_DEADLOCK FALSE
