-------------------------------- MODULE Lo --------------------------------
(***************************************************************************)
(* Variant-calling relations (C03 `ska align` on derived samples, C17 /    *)
(* C18 `ska lo`): declarative statements of what the SNP columns and indel *)
(* records must be for samples DERIVED from a common ancestor, together    *)
(* with the preconditions under which the properties promise it.  The      *)
(* specification owns the derivation and the preconditions: a recorded     *)
(* scenario gives the ancestor, the sites, the alleles and, per sample,    *)
(* its records with their ancestor offset and orientation; the operators   *)
(* below check that the records really are that derivation and evaluate    *)
(* the preconditions on them.                                              *)
(***************************************************************************)
EXTENDS Table

\* ---- derivation ------------------------------------------------------------
\* ancestor: byte tuple; sites: tuple of 0-based positions; alleles[i][s]: byte of sample s at site i
AlleleAt(ancestor, sites, alleles, s, p) ==       \* p 0-based
   LET hit == {i \in 1..Len(sites) : sites[i] = p} IN
   IF hit = {} THEN ancestor[p + 1] ELSE alleles[CHOOSE i \in hit : TRUE][s]

\* a record [seq, off, rev] of sample s is the stated piece of the derived genome
RecordIsDerived(ancestor, sites, alleles, s, r) ==
   LET n == Len(r.seq)
       fwd == [j \in 1..n |-> AlleleAt(ancestor, sites, alleles, s, r.off + j - 1)]
   IN r.off + n <= Len(ancestor) /\ r.seq = (IF r.rev THEN RevCompBytes(fwd) ELSE fwd)

DerivationOK(ancestor, sites, alleles, samples) ==
   \A s \in 1..Len(samples) : \A i \in 1..Len(samples[s]) :
      RecordIsDerived(ancestor, sites, alleles, s, samples[s][i])

\* ---- preconditions -----------------------------------------------------------
\* every window of every sample as <<canonical arms, ancestor position of its centre, ancestor strand
\* the canonical form was read from>>.  (MC_AlignSnp showed the strand is needed: two substitutions
\* exactly k-1 apart with complementary bases make the window between them equal, arms-wise, to its
\* own reverse complement in the other sample - same position, opposite strand - which yields a
\* spurious column.)
APos(r, pos) == IF r.rev THEN r.off + Len(r.seq) - 1 - pos ELSE r.off + pos
WindowKP(samples, k) ==
   UNION {UNION {{<<o.km, APos(samples[s][i], o.pos), o.isrc # samples[s][i].rev>> : o \in FaObs(samples[s][i].seq, k, TRUE)} :
                 i \in 1..Len(samples[s])} : s \in 1..Len(samples)}
AnyPal(samples, k) ==
   \E s \in 1..Len(samples) : \E i \in 1..Len(samples[s]) : \E o \in FaObs(samples[s][i].seq, k, TRUE) : o.pal

\* strict: over ALL derived samples a split k-mer (either strand) belongs to one ancestor position
\* only, and none is its own reverse complement
UniquePerPosition(samples, k) ==
   LET kp == WindowKP(samples, k) IN
   ~AnyPal(samples, k) /\ Cardinality({p[1] : p \in kp}) = Cardinality(kp)

\* sites isolated: more than h apart, and at least h inside a record of every sample
Isolated(sites, samples, h) ==
   /\ \A i \in 1..Len(sites) : \A j \in 1..Len(sites) : i # j =>
         (IF sites[i] > sites[j] THEN sites[i] - sites[j] ELSE sites[j] - sites[i]) > h
   /\ \A i \in 1..Len(sites) : \A s \in 1..Len(samples) :
         \E r \in {samples[s][x] : x \in 1..Len(samples[s])} :
            sites[i] - r.off >= h /\ (r.off + Len(r.seq) - 1) - sites[i] >= h

\* ---- expected SNP columns -------------------------------------------------------
CompCol(col) == [i \in 1..Len(col) |-> CompCode(col[i])]
CanonCol(col) == LET c == CompCol(col) IN IF LexLess(c, col) THEN c ELSE col
\* sites where the samples do not all carry the same base
VariableSites(alleles) == {i \in 1..Len(alleles) : Cardinality({alleles[i][s] : s \in 1..Len(alleles[i])}) >= 2}
ExpectedBag(alleles) ==
   LET vs == SetToSeq(VariableSites(alleles)) IN
   BagOfSeq([j \in 1..Len(vs) |-> CanonCol(alleles[vs[j]])])
ObservedBag(seqs) == LET cols == ColumnsOf(seqs) IN BagOfSeq([j \in 1..Len(cols) |-> CanonCol(cols[j])])

SnpColumnsOK(names, seqs, wantNames, alleles) ==
   /\ names = wantNames
   /\ Len(seqs) = Len(wantNames)
   /\ EqualLengths(seqs)
   /\ ObservedBag(seqs) = ExpectedBag(alleles)

\* well-formedness required of EVERY ska lo run (C17): equal lengths, every column has at least
\* two distinct A/C/G/T alleles and at most the allowed number of missing samples
WellFormedSnps(seqs, maxMissingNum, maxMissingDen) ==
   /\ EqualLengths(seqs)
   /\ \A col \in {ColumnsOf(seqs)[j] : j \in 1..(IF Len(seqs) = 0 THEN 0 ELSE Len(seqs[1]))} :
         /\ Cardinality({col[i] : i \in 1..Len(col)} \cap {65, 67, 71, 84}) >= 2
         /\ Cardinality({i \in 1..Len(col) : col[i] \notin {65, 67, 71, 84}}) * maxMissingDen <= maxMissingNum * Len(col)
=============================================================================
