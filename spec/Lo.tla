-------------------------------- MODULE Lo --------------------------------
(***************************************************************************)
(* Variant-calling relations (C03 `ska align` on derived samples, C17 /    *)
(* C18 `ska lo`): declarative statements of what the SNP columns and indel *)
(* records must be for samples DERIVED from a common ancestor, together    *)
(* with the preconditions under which the properties promise it.  The      *)
(* specification owns the derivation and the preconditions: a recorded     *)
(* scenario gives the ancestor, the sites, the alleles and, per sample,    *)
(* its records with their ancestor offset and orientation; the operators   *)
(* below check that the records really are that derivation and evaluate    *)
(* the preconditions on them.                                              *)
(***************************************************************************)
EXTENDS Table

\* ---- derivation ------------------------------------------------------------
\* ancestor: byte tuple; sites: tuple of 0-based positions; alleles[i][s]: byte of sample s at site i
AlleleAt(ancestor, sites, alleles, s, p) ==       \* p 0-based
   LET hit == {i \in 1..Len(sites) : sites[i] = p} IN
   IF hit = {} THEN ancestor[p + 1] ELSE alleles[CHOOSE i \in hit : TRUE][s]

\* a record [seq, off, rev] of sample s is the stated piece of the derived genome
RecordIsDerived(ancestor, sites, alleles, s, r) ==
   LET n == Len(r.seq)
       fwd == [j \in 1..n |-> AlleleAt(ancestor, sites, alleles, s, r.off + j - 1)]
   IN r.off + n <= Len(ancestor) /\ r.seq = (IF r.rev THEN RevCompBytes(fwd) ELSE fwd)

DerivationOK(ancestor, sites, alleles, samples) ==
   \A s \in 1..Len(samples) : \A i \in 1..Len(samples[s]) :
      RecordIsDerived(ancestor, sites, alleles, s, samples[s][i])

\* ---- preconditions -----------------------------------------------------------
\* every window of every sample as <<canonical arms, ancestor position of its centre, ancestor strand
\* the canonical form was read from>>.  (MC_AlignSnp showed the strand is needed: two substitutions
\* exactly k-1 apart with complementary bases make the window between them equal, arms-wise, to its
\* own reverse complement in the other sample - same position, opposite strand - which yields a
\* spurious column.)
APos(r, pos) == IF r.rev THEN r.off + Len(r.seq) - 1 - pos ELSE r.off + pos
WindowKP(samples, k) ==
   UNION {UNION {{<<o.km, APos(samples[s][i], o.pos), o.isrc # samples[s][i].rev>> : o \in FaObs(samples[s][i].seq, k, TRUE)} :
                 i \in 1..Len(samples[s])} : s \in 1..Len(samples)}
AnyPal(samples, k) ==
   \E s \in 1..Len(samples) : \E i \in 1..Len(samples[s]) : \E o \in FaObs(samples[s][i].seq, k, TRUE) : o.pal

\* strict: over ALL derived samples a split k-mer (either strand) belongs to one ancestor position
\* only, and none is its own reverse complement
UniquePerPosition(samples, k) ==
   LET kp == WindowKP(samples, k) IN
   ~AnyPal(samples, k) /\ Cardinality({p[1] : p \in kp}) = Cardinality(kp)

\* sites isolated: more than h apart, and at least h inside a record of every sample
Isolated(sites, samples, h) ==
   /\ \A i \in 1..Len(sites) : \A j \in 1..Len(sites) : i # j =>
         (IF sites[i] > sites[j] THEN sites[i] - sites[j] ELSE sites[j] - sites[i]) > h
   /\ \A i \in 1..Len(sites) : \A s \in 1..Len(samples) :
         \E r \in {samples[s][x] : x \in 1..Len(samples[s])} :
            sites[i] - r.off >= h /\ (r.off + Len(r.seq) - 1) - sites[i] >= h

\* ---- expected SNP columns -------------------------------------------------------
CompCol(col) == [i \in 1..Len(col) |-> CompCode(col[i])]
CanonCol(col) == LET c == CompCol(col) IN IF LexLess(c, col) THEN c ELSE col
\* sites where the samples do not all carry the same base
VariableSites(alleles) == {i \in 1..Len(alleles) : Cardinality({alleles[i][s] : s \in 1..Len(alleles[i])}) >= 2}
ExpectedBag(alleles) ==
   LET vs == SetToSeq(VariableSites(alleles)) IN
   BagOfSeq([j \in 1..Len(vs) |-> CanonCol(alleles[vs[j]])])
ObservedBag(seqs) == LET cols == ColumnsOf(seqs) IN BagOfSeq([j \in 1..Len(cols) |-> CanonCol(cols[j])])

SnpColumnsOK(names, seqs, wantNames, alleles) ==
   /\ names = wantNames
   /\ Len(seqs) = Len(wantNames)
   /\ EqualLengths(seqs)
   /\ ObservedBag(seqs) = ExpectedBag(alleles)

\* well-formedness required of EVERY ska lo run (C17): equal lengths, every column has at least
\* two distinct A/C/G/T alleles and at most the allowed number of missing samples
WellFormedSnps(seqs, maxMissingNum, maxMissingDen) ==
   /\ EqualLengths(seqs)
   /\ \A col \in {ColumnsOf(seqs)[j] : j \in 1..(IF Len(seqs) = 0 THEN 0 ELSE Len(seqs[1]))} :
         /\ Cardinality({col[i] : i \in 1..Len(col)} \cap {65, 67, 71, 84}) >= 2
         /\ Cardinality({i \in 1..Len(col) : col[i] \notin {65, 67, 71, 84}}) * maxMissingDen <= maxMissingNum * Len(col)

(***************************************************************************)
(* ska lo (C17, C18)                                                       *)
(***************************************************************************)
\* ---- C17 precondition: contiguous (k-1)-mers unique per ancestor position and strand over all
\* derived samples, none its own reverse complement; sites >= 2k apart and >= k inside a record
MerAt(seq, i, n) == [j \in 1..n |-> Enc(seq[i + j - 1])]
ValidMer(seq, i, n) == \A j \in i..(i + n - 1) : IsBase(seq[j])
MerKP(samples, n) ==
   UNION {UNION {{ LET d == MerAt(r.seq, i, n)  rcd == RevComp(d)  flip == LexLess(rcd, d)
                       apos == IF r.rev THEN r.off + Len(r.seq) - (i - 1) - n ELSE r.off + i - 1
                   IN <<IF flip THEN rcd ELSE d, apos, flip # r.rev, rcd = d>> :
                   i \in {x \in 1..(Len(r.seq) + 1 - n) : ValidMer(r.seq, x, n)}} :
                 r \in {samples[s][x] : x \in 1..Len(samples[s])}} : s \in 1..Len(samples)}
MersUniquePerPosition(samples, n) ==
   LET kp == MerKP(samples, n) IN
   /\ \A q \in kp : ~q[4]
   /\ Cardinality({q[1] : q \in kp}) = Cardinality(kp)

SpacedSites(sites, samples, gap, margin) ==
   /\ \A i \in 1..Len(sites) : \A j \in 1..Len(sites) : i # j =>
         (IF sites[i] > sites[j] THEN sites[i] - sites[j] ELSE sites[j] - sites[i]) >= gap
   /\ \A i \in 1..Len(sites) : \A s \in 1..Len(samples) :
         \E r \in {samples[s][x] : x \in 1..Len(samples[s])} :
            sites[i] - r.off >= margin /\ (r.off + Len(r.seq) - 1) - sites[i] >= margin

Pre17(sites, samples, k) == MersUniquePerPosition(samples, k - 1) /\ SpacedSites(sites, samples, 2 * k, k)

\* ---- C17 reference mode: VCF records and pseudo-genomes (reference = the ancestor) ----------
\* vcf: tuple of [pos (1-based), ref (byte), alts (tuple of bytes), gts (tuple of ints, -1 = '.')]
LoVcfOK(ancestor, sites, alleles, vcf) ==
   LET vs == VariableSites(alleles) IN
   /\ {vcf[i].pos : i \in 1..Len(vcf)} = {sites[i] + 1 : i \in vs}
   /\ Len(vcf) = Cardinality(vs)
   /\ \A i \in 1..Len(vcf) :
         LET r == vcf[i]
             si == CHOOSE x \in vs : sites[x] + 1 = r.pos
         IN /\ r.ref = ancestor[r.pos]
            /\ Len(r.gts) = Len(alleles[si])
            /\ \A s \in 1..Len(r.gts) :
                  /\ r.gts[s] >= 0 /\ r.gts[s] <= Len(r.alts)
                  /\ (IF r.gts[s] = 0 THEN r.ref ELSE r.alts[r.gts[s]]) = alleles[si][s]
PseudoOK(ancestor, sites, alleles, pseudo) ==
   \A s \in 1..Len(pseudo) :
      pseudo[s] = [p \in 1..Len(ancestor) |-> AlleleAt(ancestor, sites, alleles, s, p - 1)]

\* ---- C18: indel records ----------------------------------------------------------------------
\* a record: [before, ref, alt, after (byte tuples, <<>> for '-'), gts (tuple of strings "0","1","0/1",".")]
IsSubseqAt(sub, seq, i) == \A j \in 1..Len(sub) : seq[i + j - 1] = sub[j]
Occurs(sub, seq) == Len(sub) <= Len(seq) /\ \E i \in 1..(Len(seq) + 1 - Len(sub)) : seq[i] = sub[1] /\ IsSubseqAt(sub, seq, i)
OccursInSample(sub, recs) ==        \* on either strand of any record of the sample
   \E x \in 1..Len(recs) : Occurs(sub, recs[x].seq) \/ Occurs(RevCompBytes(sub), recs[x].seq)

\* the record describes a real difference and genotypes every sample for exactly what it carries
RecordReal(rec, samples) ==
   LET refSeq == rec.before \o rec.ref \o rec.after
       altSeq == rec.before \o rec.alt \o rec.after
   IN \A s \in 1..Len(samples) :
         LET hasRef == OccursInSample(refSeq, samples[s])
             hasAlt == OccursInSample(altSeq, samples[s])
             g == rec.gts[s]
         IN /\ (g = "0") = (hasRef /\ ~hasAlt)
            /\ (g = "1") = (hasAlt /\ ~hasRef)
            /\ (g = "0/1") = (hasRef /\ hasAlt)
            /\ (g = ".") = (~hasRef /\ ~hasAlt)

\* planted indels: [len, seq (the inserted/deleted bases, ancestor strand), long (set of samples carrying the LONG form)]
Rotations(x) == {[j \in 1..Len(x) |-> x[((j + r - 1) % Len(x)) + 1]] : r \in 0..(Len(x) - 1)}
LongForm(rec) == IF Len(rec.ref) >= Len(rec.alt) THEN "ref" ELSE "alt"
LongSamples(rec) == {s \in 1..Len(rec.gts) : rec.gts[s] = (IF LongForm(rec) = "ref" THEN "0" ELSE "1")}
LongAllele(rec) == IF LongForm(rec) = "ref" THEN rec.ref ELSE rec.alt
ShortAllele(rec) == IF LongForm(rec) = "ref" THEN rec.alt ELSE rec.ref
Consistent(rec, ind) ==
   /\ ShortAllele(rec) = <<>>
   /\ Len(LongAllele(rec)) = ind.len
   /\ (LongAllele(rec) \in Rotations(ind.seq) \/ RevCompBytes(LongAllele(rec)) \in Rotations(ind.seq))
   /\ LongSamples(rec) = {ind.long[i] : i \in 1..Len(ind.long)}
\* every record is one planted indel, no planted indel is reported twice
RecordsMatchPlanted(recs, planted) ==
   \E f \in [1..Len(recs) -> 1..Len(planted)] :
      /\ \A i \in 1..Len(recs) : \A j \in 1..Len(recs) : i # j => f[i] # f[j]
      /\ \A i \in 1..Len(recs) : Consistent(recs[i], planted[f[i]])
=============================================================================
