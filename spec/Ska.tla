-------------------------------- MODULE Ska --------------------------------
(***************************************************************************)
(* Composition: a directory of .skf files and one action per `ska`         *)
(* subcommand that reads or writes them.  This is the model on which       *)
(* HISTORIES are explored (C07, C08, C09, C10, C13) and against which      *)
(* recorded command sequences are validated.                               *)
(*                                                                         *)
(* files : file name |-> NoFile, or an ITable (Table.tla): the logical     *)
(* table plus the cached per-row count column the real file carries.       *)
(* Every mutating command is an action; a refused command leaves `files`   *)
(* unchanged.  Observing commands (align, distance, nk) are operators on   *)
(* the current file content, in two versions: *Decl (what the property     *)
(* demands, from the logical content only) and *Impl (what the code        *)
(* computes, reading the cached counts).                                   *)
(***************************************************************************)
EXTENDS Table

VARIABLE files

NoFile == [absent |-> TRUE]
Present(f) == f \in DOMAIN files /\ files[f] # NoFile
Content(f) == Logical(files[f])            \* the logical table of a present file

\* the directory after writing I to file f (functional form; the actions below are `files' = ...`)
PutF(f, I) == [x \in DOMAIN files \cup {f} |-> IF x = f THEN I ELSE files[x]]
Put(f, I) == files' = PutF(f, I)

BuildNext(out, samples, names, k, rc) == PutF(out, Fresh(BuildTable(samples, names, k, rc)))
MergeNext(ins, out) == PutF(out, Fresh(MergeAll([i \in 1..Len(ins) |-> Logical(files[ins[i]])])))
DeleteNext(f, out, delNames) == PutF(out, Fresh(DeleteCols(Logical(files[f]), delNames)))

(* ---- ska build ---------------------------------------------------------- *)
Build(out, samples, names, k, rc) ==
   /\ ~BuildRefused(samples, k, rc)
   /\ files' = BuildNext(out, samples, names, k, rc)
BuildRefusedAct(samples, k, rc) == BuildRefused(samples, k, rc) /\ UNCHANGED files

\* a file created from an explicit table (test fixture: MergeSkaArray::new + save)
Import(out, T) == Put(out, Fresh(T))

(* ---- ska merge ---------------------------------------------------------- *)
MergeOK(ins) == /\ Len(ins) >= 2
                /\ \A i \in 1..Len(ins) : Present(ins[i])
                /\ \A i \in 1..Len(ins) : Compatible(Content(ins[1]), Content(ins[i]))
Merge(ins, out) ==
   /\ MergeOK(ins)
   /\ files' = MergeNext(ins, out)
MergeRefused(ins) == ~MergeOK(ins) /\ UNCHANGED files

(* ---- ska delete --------------------------------------------------------- *)
Delete(f, out, delNames) ==
   /\ Present(f)
   /\ ~DeleteRefused(Content(f), delNames)
   /\ files' = DeleteNext(f, out, delNames)                  \* delete_samples ends with update_counts(false)
DeleteRefusedAct(f, delNames) ==
   /\ Present(f) /\ DeleteRefused(Content(f), delNames) /\ UNCHANGED files

(* ---- ska weed (optional weed file, then optional filter) ---------------- *)
\* opts: [thr, filter, ambigMissing, ambigMask, noGapOnly]; thr = floor(f*n) computed by the caller
WeedFilterActive(o) == o.thr > 0 \/ o.filter # "no-filter" \/ o.ambigMask \/ o.noGapOnly

\* implementation shaped: weed() copies the cached counts, filter() reads them
WeedImpl(I, useWeed, kms, reverse, o) ==
   LET W == IF useWeed THEN [I EXCEPT !.irows = {r \in I.irows : IF reverse THEN r.km \in kms ELSE r.km \notin kms}]
            ELSE I
   IN IF WeedFilterActive(o)
      THEN FilterImpl(W, o.thr, o.filter, o.ambigMissing, o.ambigMask, o.noGapOnly)
      ELSE W
\* declarative: documented effect on the logical table
WeedDecl(T, useWeed, kms, reverse, o) ==
   LET W == IF useWeed THEN Weed(T, kms, reverse) ELSE T IN
   IF WeedFilterActive(o)
   THEN FilterTable(W, o.thr, o.filter, o.ambigMissing, o.ambigMask, o.noGapOnly)
   ELSE W

WeedNext(f, out, useWeed, kms, reverse, o) == PutF(out, WeedImpl(files[f], useWeed, kms, reverse, o))
WeedAct(f, out, useWeed, kms, reverse, o) ==
   /\ Present(f)
   /\ files' = WeedNext(f, out, useWeed, kms, reverse, o)

(* ---- observations -------------------------------------------------------- *)
\* ska align: bag of columns
AlignDecl(f, thr, filter, ambigMissing, ambigMask, noGapOnly) ==
   AlignBag(Content(f), thr, filter, ambigMissing, ambigMask, noGapOnly)
AlignImpl(f, thr, filter, ambigMissing, ambigMask, noGapOnly) ==
   LET J == FilterImpl(files[f], thr, filter, ambigMissing, ambigMask, noGapOnly)
       cols == {r.bases : r \in J.irows}
   IN [c \in cols |-> Cardinality({r \in J.irows : r.bases = c})]

\* Observational equivalence (C10): what the code computes from a file (cached counts
\* included) is what the documented semantics gives for its logical content.
ProbeSettings == {[thr |-> t, filter |-> fl, am |-> am, mask |-> m, ng |-> ng] :
                     t \in 0..3, fl \in Filters, am \in BOOLEAN, m \in {FALSE}, ng \in {FALSE}}
Observational ==
   \A f \in DOMAIN files : Present(f) =>
      \A p \in ProbeSettings :
         AlignImpl(f, Max2(p.thr, 1), p.filter, p.am, p.mask, p.ng) = AlignDecl(f, Max2(p.thr, 1), p.filter, p.am, p.mask, p.ng)
=============================================================================
