------------------------------ MODULE LoGraph ------------------------------
(***************************************************************************)
(* The first two stages of `ska lo` (src/skalo/input.rs build_graph and    *)
(* src/skalo/extremities.rs identify_good_kmers) as a specification:       *)
(*                                                                         *)
(*  - every split k-mer of the table, with every base its (possibly        *)
(*    ambiguous) middle code stands for, is a FULL k-mer carrying the set  *)
(*    of samples that have that base; each full k-mer and its reverse      *)
(*    complement contribute an edge between their two (k-1)-mers;          *)
(*  - an ENTRY node is a (k-1)-mer with two outgoing edges whose full      *)
(*    k-mers are carried by different sample sets; EXIT nodes are the      *)
(*    reverse complements of the entry nodes.                              *)
(*                                                                         *)
(* Design-level theorem (MC_LoGraph): for samples derived from an ancestor *)
(* under the C17 precondition the entry nodes are exactly, on each strand, *)
(* the (k-1)-mer immediately before each variable site.                    *)
(* Traversal, compaction, de-duplication and positioning are NOT modelled; *)
(* C17/C18 are decided relationally on recorded runs (Lo.tla, Trace_Lo).   *)
(***************************************************************************)
EXTENDS Lo

\* full k-mer (k digits) of a row's arms with middle digit d
FullOf(arms, d, k) == LET h == Half(k) IN SubSeq(arms, 1, h) \o <<d>> \o SubSeq(arms, h + 1, 2 * h)

\* set of <<full k-mer, sample set>> for the stored orientation of every row
RowFulls(T) ==
   UNION {{<<FullOf(r[1], d, T.k), {s \in 1..Len(r[2]) : r[2][s] # Gap /\ d \in IupacSet(r[2][s])}>> :
             d \in UNION {IupacSet(r[2][s]) : s \in 1..Len(r[2])}} : r \in T.rows}
\* both strands
AllFulls(T) == LET F == RowFulls(T) IN F \cup {<<RevComp(f[1]), f[2]>> : f \in F}

Prefix(f) == SubSeq(f, 1, Len(f) - 1)
Suffix(f) == SubSeq(f, 2, Len(f))
Nodes(T) == {Prefix(f[1]) : f \in AllFulls(T)}
Edges(T) == {<<Prefix(f[1]), Suffix(f[1])>> : f \in AllFulls(T)}
SamplesOfFull(T, full) == (CHOOSE f \in AllFulls(T) : f[1] = full)[2]

EntryNodes(T) ==
   LET A == AllFulls(T) IN
   {u \in {Prefix(f[1]) : f \in A} :
      \E f1 \in A, f2 \in A : /\ Prefix(f1[1]) = u /\ Prefix(f2[1]) = u
                              /\ f1[1] # f2[1] /\ f1[2] # f2[2]}
ExitNodes(T) == {RevComp(u) : u \in EntryNodes(T)}

\* ---- expectation for derived samples ------------------------------------------------
\* the (k-1)-mer of ancestor positions [p-(k-1), p-1] (0-based), shared by all samples when no other
\* site lies in it; on the reverse strand the reverse complement of [p+1, p+k-1]
LeftMer(ancestor, p, n) == [j \in 1..n |-> Enc(ancestor[p - n + j])]
RightMer(ancestor, p, n) == [j \in 1..n |-> Enc(ancestor[p + 1 + j])]
ExpectedEntries(ancestor, sites, alleles, k) ==
   UNION {{LeftMer(ancestor, sites[i], k - 1), RevComp(RightMer(ancestor, sites[i], k - 1))} : i \in VariableSites(alleles)}
=============================================================================
