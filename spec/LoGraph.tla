------------------------------ MODULE LoGraph ------------------------------
(***************************************************************************)
(* The first two stages of `ska lo` (src/skalo/input.rs build_graph and    *)
(* src/skalo/extremities.rs identify_good_kmers) as a specification:       *)
(*                                                                         *)
(*  - every split k-mer of the table, with every base its (possibly        *)
(*    ambiguous) middle code stands for, is a FULL k-mer carrying the set  *)
(*    of samples that have that base; each full k-mer and its reverse      *)
(*    complement contribute an edge between their two (k-1)-mers;          *)
(*  - an ENTRY node is a (k-1)-mer with two outgoing edges whose full      *)
(*    k-mers are carried by different sample sets; EXIT nodes are the      *)
(*    reverse complements of the entry nodes.                              *)
(*                                                                         *)
(* Design-level theorem (MC_LoGraph): for samples derived from an ancestor *)
(* under the C17 precondition the entry nodes are exactly, on each strand, *)
(* the (k-1)-mer immediately before each variable site.                    *)
(* The third stage, path enumeration (src/skalo/read_graph.rs               *)
(* build_variant_groups), is specified below as `FinalGroups` / `FinalIndels`:*)
(* the saved paths of the depth-first walk from every entry node, grouped  *)
(* by exit node, filtered to the most common length and split into indel   *)
(* and SNP groups.  Compaction is an optimisation of the walk and is not   *)
(* represented; de-duplication of SNPs across groups and positioning are   *)
(* not modelled: C17/C18 are decided relationally on recorded runs         *)
(* (Lo.tla, Trace_Lo).                                                     *)
(***************************************************************************)
EXTENDS Lo

\* full k-mer (k digits) of a row's arms with middle digit d
FullOf(arms, d, k) == LET h == Half(k) IN SubSeq(arms, 1, h) \o <<d>> \o SubSeq(arms, h + 1, 2 * h)

\* set of <<full k-mer, sample set>> for the stored orientation of every row
RowFulls(T) ==
   UNION {{<<FullOf(r[1], d, T.k), {s \in 1..Len(r[2]) : r[2][s] # Gap /\ d \in IupacSet(r[2][s])}>> :
             d \in UNION {IupacSet(r[2][s]) : s \in 1..Len(r[2])}} : r \in T.rows}
\* both strands
AllFulls(T) == LET F == RowFulls(T) IN F \cup {<<RevComp(f[1]), f[2]>> : f \in F}

Prefix(f) == SubSeq(f, 1, Len(f) - 1)
Suffix(f) == SubSeq(f, 2, Len(f))
Nodes(T) == {Prefix(f[1]) : f \in AllFulls(T)}
Edges(T) == {<<Prefix(f[1]), Suffix(f[1])>> : f \in AllFulls(T)}
SamplesOfFull(T, full) == (CHOOSE f \in AllFulls(T) : f[1] = full)[2]

EntryNodes(T) ==
   LET A == AllFulls(T) IN
   {u \in {Prefix(f[1]) : f \in A} :
      \E f1 \in A, f2 \in A : /\ Prefix(f1[1]) = u /\ Prefix(f2[1]) = u
                              /\ f1[1] # f2[1] /\ f1[2] # f2[2]}
ExitNodes(T) == {RevComp(u) : u \in EntryNodes(T)}

\* ---- expectation for derived samples ------------------------------------------------
\* the (k-1)-mer of ancestor positions [p-(k-1), p-1] (0-based), shared by all samples when no other
\* site lies in it; on the reverse strand the reverse complement of [p+1, p+k-1]
LeftMer(ancestor, p, n) == [j \in 1..n |-> Enc(ancestor[p - n + j])]
RightMer(ancestor, p, n) == [j \in 1..n |-> Enc(ancestor[p + 1 + j])]
ExpectedEntries(ancestor, sites, alleles, k) ==
   UNION {{LeftMer(ancestor, sites[i], k - 1), RevComp(RightMer(ancestor, sites[i], k - 1))} : i \in VariableSites(alleles)}

\* ---- the graph as the code holds it: a MULTIGRAPH ------------------------------------
\* build_graph pushes, for every row and every base d its middle codes stand for, one edge for the full k-mer
\* and one for its reverse complement.  For a row whose arms are their own reverse complement (its code
\* then stands for d and the complement of d) both edges are pushed twice.  An edge instance is
\* <<arms, d, strand>>; edges are records [id, src, dst].
Instances(T) ==
   UNION {{<<r[1], d, st>> : d \in UNION {IupacSet(r[2][i]) : i \in {j \in 1..Len(r[2]) : r[2][j] # Gap}}, st \in {0, 1}} : r \in T.rows}
FullOfInst(i, k) == IF i[3] = 0 THEN FullOf(i[1], i[2], k) ELSE RevComp(FullOf(i[1], i[2], k))
EdgeOfInst(i, k) == [id |-> i, src |-> Prefix(FullOfInst(i, k)), dst |-> Suffix(FullOfInst(i, k))]
Graph0(T) == {EdgeOfInst(i, T.k) : i \in Instances(T)}
Out(G, u) == {e \in G : e.src = u}

\* ---- compaction (compaction.rs compact_graph) ------------------------------------------
\* From every successor s of an extremity node: follow the graph while the current node has exactly one
\* outgoing edge to a node not yet on this chain, stopping on an extremity node.  Chains of at least two nodes
\* are replaced by a direct edge from s to their last node; the nodes in between are remembered so that
\* paths still spell them, but the walk below never marks them as visited.
RECURSIVE ChainFrom(_, _, _, _, _)
ChainFrom(G, Ext, cur, vis, vv) ==
   LET out == Out(G, cur) IN
   IF Cardinality(out) # 1 THEN vv
   ELSE LET n == (CHOOSE e \in out : TRUE).dst IN
        IF n \in vis THEN vv
        ELSE IF n \in Ext THEN Append(vv, n)
        ELSE ChainFrom(G, Ext, n, vis \cup {n}, Append(vv, n))
ChainStarts(G, Ext) == {e.dst : e \in {f \in G : f.src \in Ext}}
Chains(G, Ext) == LET cs == ChainStarts(G, Ext)
                      ch == [s \in cs |-> ChainFrom(G, Ext, s, {}, <<>>)]
                  IN [s \in {x \in cs : Len(ch[x]) > 1} |-> ch[s]]
Compacted(G, C) ==
   LET gone(e) == \E s \in DOMAIN C :
                     \/ (e.src = s /\ e.dst = C[s][1])
                     \/ \E i \in 1..(Len(C[s]) - 2) : e.src = C[s][i] /\ e.dst = C[s][i + 1]
   IN {e \in G : ~gone(e)} \cup {[id |-> <<"chain", s>>, src |-> s, dst |-> C[s][Len(C[s])]] : s \in DOMAIN C}
\* the nodes a path spells after stepping on n: the chain's nodes but the last
Inner(C, n) == IF n \in DOMAIN C THEN SubSeq(C[n], 1, Len(C[n]) - 1) ELSE <<>>

\* ---- path enumeration (read_graph.rs build_variant_groups) -------------------------
\* Neighbours are tried in the order of the adjacency list: sorted by packed value (fix F13), i.e. lexicographically
\* on digits; the two copies of a double edge are interchangeable.
EdgeLess(a, b) == IF a.dst # b.dst THEN LexLess(a.dst, b.dst) ELSE a.id[2] < b.id[2]
EdgeSeq(S) == SetToSortSeq(S, EdgeLess)

\* (G below is the adjacency function: node -> sequence of its outgoing edges in that order.)
\* The walk from a state [cur, vis, vv, ids, depth], as the SEQUENCE of saved paths in the order the code saves them
\* (the order decides REF/ALT of an indel whose alleles are equally frequent).  A node is stepped on if it is not
\* marked visited; stepping on an exit node SAVES the path (with the chain nodes that follow it) and the walk goes
\* on; where several edges lead to unvisited nodes (a double edge counts twice) every such step is saved first, in
\* order, and the forks are then explored last-first (a stack) with depth + 1; a fork deeper than maxDepth is
\* abandoned.
Step(C, X, st, e) == [cur |-> e.dst, vis |-> st.vis \cup {e.dst}, vv |-> Append(st.vv, e.dst) \o Inner(C, e.dst),
                      ids |-> Append(st.ids, e.id), depth |-> st.depth]
SavedOf(X, st2, e) == IF e.dst \in X THEN <<[vv |-> st2.vv, ids |-> st2.ids, x |-> e.dst]>> ELSE <<>>
RECURSIVE Cont(_, _, _, _, _)
Cont(G, C, X, maxDepth, st) ==
   LET nxt == IF st.cur \in DOMAIN G THEN SelectSeq(G[st.cur], LAMBDA e : e.dst \notin st.vis) ELSE <<>>
       m == Len(nxt)
       RECURSIVE saves(_)
       saves(i) == IF i > m THEN <<>> ELSE SavedOf(X, Step(C, X, st, nxt[i]), nxt[i]) \o saves(i + 1)
       RECURSIVE forks(_)
       forks(i) == IF i < 1 THEN <<>>
                   ELSE Cont(G, C, X, maxDepth, [Step(C, X, st, nxt[i]) EXCEPT !.depth = st.depth + 1]) \o forks(i - 1)
   IN IF m = 0 THEN <<>>
      ELSE IF m = 1
           THEN LET st2 == Step(C, X, st, nxt[1]) IN SavedOf(X, st2, nxt[1]) \o Cont(G, C, X, maxDepth, st2)
           ELSE saves(1) \o (IF st.depth + 1 > maxDepth THEN <<>> ELSE forks(m))

SavedPaths(G, C, X, maxDepth, e) ==
   LET first == IF e \in DOMAIN G THEN G[e] ELSE <<>>
       RECURSIVE from(_)
       from(i) == IF i > Len(first) THEN <<>>
                  ELSE Cont(G, C, X, maxDepth, [cur |-> first[i].dst, vis |-> {e, first[i].dst},
                                                vv |-> <<e, first[i].dst>> \o Inner(C, first[i].dst),
                                                ids |-> <<first[i].id>>, depth |-> 0]) \o from(i + 1)
   IN from(1)

\* the base sequence a path spells: the entry (k-1)-mer, then the last digit of every further node
SeqOfPath(p) == p[1] \o [i \in 1..(Len(p) - 1) |-> p[i + 1][Len(p[i + 1])]]

\* candidate SNP positions of a path (0-based index into the spelled sequence): the base after an entry node, the base
\* before an exit node.  `len - kg` is computed on unsigned integers: for paths shorter than kg it wraps (release build)
\* and the guard is true.
SnpPositions(vv, E, X, kg) ==
   {i + kg : i \in {j \in 0..(Len(vv) - 1) : vv[j + 1] \in E /\ (Len(vv) < kg \/ j <= Len(vv) - kg)}}
   \cup {i - 1 : i \in {j \in 0..(Len(vv) - 1) : vv[j + 1] \in X /\ ~(vv[j + 1] \in E /\ (Len(vv) < kg \/ j <= Len(vv) - kg))}}

\* most common path length; ties go to the shorter one (fix F13: independent of map iteration order)
MostCommonLength(ps) ==
   LET lens == {Len(p.vv) : p \in ps}
       cnt(l) == Cardinality({p \in ps : Len(p.vv) = l})
   IN CHOOSE l \in lens : \A m \in lens : cnt(l) > cnt(m) \/ (cnt(l) = cnt(m) /\ l <= m)

\* groups built from entry node e, in walk order: <<entry, exit, SEQUENCE of variants [seq, pos, ids]>> (the ids keep apart
\* the copies of a path that runs through a double edge)
BuiltFromSeq(G, C, E, X, maxDepth, e, kg) ==
   LET savedSeq == SavedPaths(G, C, X, maxDepth, e)
       saved == {savedSeq[i] : i \in 1..Len(savedSeq)}
       exits == {p.x : p \in saved}
       at(x) == {p \in saved : p.x = x}
       worth == \E x \in exits : Cardinality(at(x)) > 1
       keptSet(x) == IF Cardinality(at(x)) = 2 THEN at(x)
                     ELSE LET l == MostCommonLength(at(x)) IN {p \in at(x) : Len(p.vv) = l}
       keptSeq(x) == LET ks == keptSet(x) IN SelectSeq(savedSeq, LAMBDA p : p \in ks)
       variant(p) == [seq |-> SeqOfPath(p.vv), pos |-> SnpPositions(p.vv, E, X, kg), ids |-> p.ids]
   IN IF ~worth THEN {}
      ELSE {<<e, x, [i \in 1..Len(keptSeq(x)) |-> variant(keptSeq(x)[i])]>> :
               x \in {y \in exits : /\ Cardinality({p.vv[2] : p \in at(y)}) > 1
                                    /\ Cardinality({p.vv[Len(p.vv) - 1] : p \in at(y)}) > 1}}

BuiltGroupsSeq(T, maxDepth) ==
   LET E == EntryNodes(T)
       X == {RevComp(u) : u \in E}
       G0 == Graph0(T)
       C == Chains(G0, E \cup X)
       G1 == Compacted(G0, C)
       \* the adjacency lists the walk reads: per node, its outgoing edges in order
       G == [u \in {f.src : f \in G1} |-> EdgeSeq(Out(G1, u))]
   IN UNION {BuiltFromSeq(G, C, E, X, maxDepth, e, T.k - 1) : e \in E}
\* the same without order: <<entry, exit, set of <<sequence, edge ids>> >>
Unordered(B) == {<<g[1], g[2], {<<g[3][i].seq, g[3][i].ids>> : i \in 1..Len(g[3])}>> : g \in B}
BuiltGroups(T, maxDepth) == Unordered(BuiltGroupsSeq(T, maxDepth))

\* an indel group: exactly two paths of different lengths, one of them at most 2(k-1) long;
\* every other group of at least two paths is a SNP group
TwoLengths(g) == Cardinality(g[3]) = 2 /\ \E a \in g[3], b \in g[3] : Len(a[1]) # Len(b[1])
FinalIndelsOf(B, k) == {g \in B : TwoLengths(g) /\ \E a \in g[3] : Len(a[1]) <= 2 * (k - 1)}
FinalGroupsOf(B) == {g \in B : Cardinality(g[3]) >= 2 /\ ~TwoLengths(g)}
FinalIndels(T, maxDepth) == FinalIndelsOf(BuiltGroups(T, maxDepth), T.k)
FinalGroups(T, maxDepth) == FinalGroupsOf(BuiltGroups(T, maxDepth))
\* without the copies: <<entry, exit, set of sequences>>
Plain(G) == {<<g[1], g[2], {q[1] : q \in g[3]}>> : g \in G}

\* strand symmetry: every group has its mirror image, exit and entry swapped and reverse-complemented
Mirror(g) == <<RevComp(g[2]), RevComp(g[1]), {RevComp(q) : q \in g[3]}>>
StrandSymmetric(G) == \A g \in Plain(G) : Mirror(g) \in Plain(G)

\* expectation for derived samples under the C17 precondition: a group from the (k-1)-mer before a variable
\* site to the (k-1)-mer after it (and its mirror) spelling left flank + allele + right flank for every
\* allele present.  (Groups spanning several sites exist as well when the walk reaches the next site.)
SiteGroup(ancestor, p, col, k) ==
   <<LeftMer(ancestor, p, k - 1), RightMer(ancestor, p, k - 1),
     {LeftMer(ancestor, p, k - 1) \o <<Enc(col[s])>> \o RightMer(ancestor, p, k - 1) : s \in 1..Len(col)}>>
ExpectedSiteGroups(ancestor, sites, alleles, k) ==
   UNION {{SiteGroup(ancestor, sites[i], alleles[i], k), Mirror(SiteGroup(ancestor, sites[i], alleles[i], k))} : i \in VariableSites(alleles)}
=============================================================================
