-------------------------------- MODULE Par --------------------------------
(***************************************************************************)
(* Parallelism in ska (C11).                                               *)
(*                                                                         *)
(* 1. The process-wide rayon pool can be configured ONCE; a second         *)
(*    `build_global()` returns an error.  Each subcommand is a PROGRAM of  *)
(*    pool steps transcribed from the code: Strict (the error is unwrapped *)
(*    and aborts the process) or Tolerant (the error is ignored).          *)
(* 2. build_and_merge splits the samples recursively into 2^depth leaves   *)
(*    with fixed offsets, appends serially inside a leaf and joins in      *)
(*    order; `Leaves` is the recursion, `Depth` the depth rule.            *)
(* 3. Leaves run concurrently and own disjoint sample columns, so every    *)
(*    interleaving ends in the serial table; merge() ORs byte vectors and  *)
(*    is only correct because at most one side is non-zero per cell.       *)
(***************************************************************************)
EXTENDS Naturals, Sequences, FiniteSets

CONSTANT Dev

(* ---- 1. pool programs ---------------------------------------------------- *)
Cmds == {"build", "align", "map", "distance", "lo", "weed", "delete", "merge", "nk", "cov"}
InputKinds == {"skf", "seqs"}

\* steps: <<kind, site>> with kind in {"strict", "tolerant"}
BuildStep(t) == IF t > 1 THEN << <<"strict", "build_and_merge">> >> ELSE <<>>
Program(cmd, input, t) ==
   CASE cmd = "build" -> BuildStep(t)
     [] cmd = "align" -> IF input = "seqs" THEN BuildStep(t) ELSE <<>>
     [] cmd = "map" -> (IF input = "seqs" THEN BuildStep(t) ELSE <<>>)
                       \o << <<(IF "PoolStrictReinit" \in Dev THEN "strict" ELSE "tolerant"), "pseudoalignment">> >>
     [] cmd = "distance" -> IF t > 1 THEN << <<"strict", "distance">> >> ELSE <<>>
     [] cmd = "lo" -> << <<"strict", "build_graph">> >>
     [] OTHER -> <<>>

\* running a program: pool state "unset" | "set"; result "ok" | "abort"
RECURSIVE RunFrom(_, _, _)
RunFrom(prog, i, pool) ==
   IF i > Len(prog) THEN "ok"
   ELSE IF pool = "set" /\ prog[i][1] = "strict" THEN "abort"
   ELSE RunFrom(prog, i + 1, "set")
Run(cmd, input, t) == RunFrom(Program(cmd, input, t), 1, "unset")

(* ---- 2. split --------------------------------------------------------------- *)
Min2(a, b) == IF a <= b THEN a ELSE b
Max2(a, b) == IF a >= b THEN a ELSE b
RECURSIVE Log2Floor(_)
Log2Floor(n) == IF n <= 1 THEN 0 ELSE 1 + Log2Floor(n \div 2)
\* max_threads = max(1, min(threads, 1 + total/10)); depth = floor(log2(max_threads))
Depth(total, threads) == Log2Floor(Max2(1, Min2(threads, 1 + total \div 10)))

\* leaves as <<offset, length>> in order; depth 0 = one serial leaf
RECURSIVE Leaves(_, _, _)
Leaves(depth, offset, n) ==
   IF depth = 0 THEN << <<offset, n>> >>
   ELSE LET split == n \div 2 IN
        Leaves(depth - 1, offset, split) \o Leaves(depth - 1, offset + split, n - split)

\* the leaves tile 0..n-1 in order: each starts where the previous ended
Tiles(ls, n) ==
   /\ ls[1][1] = 0
   /\ \A i \in 1..(Len(ls) - 1) : ls[i + 1][1] = ls[i][1] + ls[i][2]
   /\ ls[Len(ls)][1] + ls[Len(ls)][2] = n
=============================================================================
