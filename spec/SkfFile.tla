------------------------------ MODULE SkfFile ------------------------------
(***************************************************************************)
(* The .skf container (C09, C19).                                          *)
(*                                                                         *)
(* Part 1 - integer width.  A file records the width it was written with   *)
(* (k_bits = 64 for k <= 31, 128 above).  Every subcommand opens a file by *)
(* trying the 64-bit loader and then the 128-bit one.  `LoadAccepts`       *)
(* states when a loader accepts; on the pinned tree (deviation             *)
(* "LoadNoWidthCheck") the 64-bit loader accepts every file whose stored   *)
(* integers happen to fit in 64 bits and the 128-bit loader accepts        *)
(* everything, so the width a file is read with need not be the one it was *)
(* written with.                                                           *)
(*                                                                         *)
(* Part 2 - damage.  A saved file is a stream identifier followed by       *)
(* frames [type, length, crc, payload]; the payload units concatenate to   *)
(* one definite-length CBOR map of 8 fields.  Save is a sequence of steps  *)
(* (create/truncate, one write per unit, close) after any of which a crash *)
(* may leave a prefix; a single bit flip may hit any unit.  `LoadDamaged`  *)
(* is the loader's verdict given the two protecting mechanisms: the        *)
(* per-frame CRC over the uncompressed payload and the complete-map        *)
(* requirement of the decoder.                                             *)
(***************************************************************************)
EXTENDS Naturals, Sequences, FiniteSets

CONSTANT Dev

WidthFor(k) == IF k <= 31 THEN 64 ELSE 128

\* file meta data relevant to loading: [k, width, fits64]
\* fits64: every stored split k-mer value is below 2^64 (always true for width 64)
\* (a split k-mer has k-1 bases = 2(k-1) bits, so everything fits for k <= 33)
SavedFile(k, fits64) == [k |-> k, width |-> WidthFor(k), fits64 |-> (IF k <= 33 THEN TRUE ELSE fits64)]

LoadAccepts(f, as) ==
   IF "LoadNoWidthCheck" \in Dev
   THEN (as = 128) \/ f.fits64             \* serde only checks that the integers fit
   ELSE as = f.width                        \* the stored width tag is checked

\* every subcommand: try 64 bits, then 128 bits
Dispatch(f) == IF LoadAccepts(f, 64) THEN 64 ELSE IF LoadAccepts(f, 128) THEN 128 ELSE 0

WidthAgrees(f) == Dispatch(f) = f.width

(***************************************************************************)
(* Part 2: frames and faults                                               *)
(***************************************************************************)
\* A pristine file with n frames of p payload units each, as a sequence of units.
\* unit = [frame |-> i (0 = stream identifier), part |-> "id" | "type" | "len" | "crc" | "pay", j |-> payload index]
Units(n, p) ==
   LET frame(i) == <<[frame |-> i, part |-> "type", j |-> 0], [frame |-> i, part |-> "len", j |-> 0],
                     [frame |-> i, part |-> "crc", j |-> 0]>>
                   \o [j \in 1..p |-> [frame |-> i, part |-> "pay", j |-> j]]
       RECURSIVE all(_)
       all(i) == IF i > n THEN <<>> ELSE frame(i) \o all(i + 1)
   IN <<[frame |-> 0, part |-> "id", j |-> 0]>> \o all(1)

\* What a flipped bit can do to a unit (nondeterministic, the model explores all):
\*   id   : identifier no longer matches                         -> rejected
\*   type : becomes an unskippable unknown/other type -> rejected ("badtype"),
\*          or a skippable type: the whole frame is silently dropped ("skipped")
\*   len  : frame boundary moves: crc check fails or stream ends early -> rejected
\*   crc  : mismatch -> rejected
\*   pay  : decompression error or crc mismatch -> rejected ("corrupt"),
\*          or the altered compressed bytes still decode to the SAME data ("benign")
FlipEffects(u) ==
   CASE u.part = "id" -> {"badid"}
     [] u.part = "type" -> {"badtype", "skipped"}
     [] u.part = "len" -> {"badlen"}
     [] u.part = "crc" -> {"badcrc"}
     [] u.part = "pay" -> {"corrupt", "benign"}

\* Loader verdict for a file that is the first m units of Units(n,p), with an optional
\* flip effect on one unit.  Returns "rejected", "same" (decodes to the original content)
\* or "different".
LoadDamaged(n, p, m, effect) ==
   LET total == Len(Units(n, p)) IN
   IF effect \in {"badid", "badtype", "badlen", "badcrc", "corrupt"} THEN "rejected"
   ELSE IF effect = "skipped" THEN
        \* a frame is missing from the decoded stream: the definite-length CBOR map cannot be
        \* completed (fewer bytes than its declared lengths require) unless the deviation
        \* "TolerantDecode" lets missing fields default
        IF "TolerantDecode" \in Dev THEN "different" ELSE "rejected"
   ELSE \* no effective damage to the units present ("benign" or none): only truncation matters
        IF m = total THEN "same"
        ELSE IF "TolerantDecode" \in Dev THEN "different"      \* prefix decoded as a shorter table
        ELSE IF "NoChecksum" \in Dev /\ FALSE THEN "different"
        ELSE "rejected"                                         \* incomplete frame or incomplete CBOR map

NeverDifferent(n, p, m, effect) == LoadDamaged(n, p, m, effect) # "different"
=============================================================================
