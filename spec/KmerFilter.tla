----------------------------- MODULE KmerFilter -----------------------------
(***************************************************************************)
(* The read counting filter (C12): src/ska_dict/bloom_filter.rs as a state *)
(* machine, and the declarative dictionary of a read set.                  *)
(*                                                                         *)
(* IMPLEMENTATION-SHAPED: a Bloom filter for first sightings (modelled as  *)
(* the set of hashes seen) and a hash |-> count table that starts at 2 on  *)
(* the second sighting.  `Observe(h)` returns whether the k-mer is added   *)
(* to the dictionary NOW: always for min_count <= 1; from the second       *)
(* sighting on for min_count = 2; exactly when the count reaches min_count *)
(* for min_count >= 3.  Hashes are opaque tokens; two different k-mers     *)
(* with the same token model a collision.                                  *)
(*                                                                         *)
(* DECLARATIVE: ReadPairs(reads, ...) - the <<split k-mer, middle base>>   *)
(* pairs whose full k-mer class (k-mer together with its reverse           *)
(* complement when strands are merged) has at least min_count windows that *)
(* pass the quality rule, over all reads of both files.                    *)
(***************************************************************************)
EXTENDS SplitKmer, FiniteSetsExt

\* ---- implementation-shaped filter state: [bloom, cnt] -----------------------
FilterInit == [bloom |-> {}, cnt |-> <<>>]        \* cnt: function hash -> count (domain grows)

CntOf(f, h) == IF h \in DOMAIN f.cnt THEN f.cnt[h] ELSE 0
SetCnt(f, h, v) == [f EXCEPT !.cnt = [x \in DOMAIN f.cnt \cup {h} |-> IF x = h THEN v ELSE f.cnt[x]]]

\* KmerFilter::filter for one observation with hash h.  Result: [f (new state), pass (added now)]
FilterStep(f, h, minCount) ==
   IF minCount <= 1 THEN [f |-> f, pass |-> TRUE]
   ELSE IF h \notin f.bloom THEN [f |-> [f EXCEPT !.bloom = f.bloom \cup {h}], pass |-> FALSE]
   ELSE IF minCount = 2 THEN [f |-> f, pass |-> TRUE]
   ELSE LET c == IF h \in DOMAIN f.cnt THEN f.cnt[h] + 1 ELSE 2 IN
        [f |-> SetCnt(f, h, c), pass |-> (c = minCount)]

\* ---- declarative read dictionary ---------------------------------------------
\* observations of all reads that pass the quality rule (middle-base rule applied via o.mq)
PassingObs(reads, quals, k, rc, rule, minq) ==
   UNION {{o \in ObsSet(reads[r], quals[r], k, rc, rule, minq) : o.mq} : r \in 1..Len(reads)}

\* multiplicity needs the LIST of windows, not the set (the same window content may recur)
PassingList(reads, quals, k, rc, rule, minq) ==
   LET RECURSIVE Cat(_)
       Cat(r) == IF r > Len(reads) THEN <<>>
                 ELSE SelectSeq(ObsList(reads[r], quals[r], k, rc, rule, minq), LAMBDA o : o.mq) \o Cat(r + 1)
   IN Cat(1)

\* class of a window: its full k-mer merged with its reverse complement (when rc); for
\* self-reverse-complement arms the two strands differ only in the middle base
ClassOf(o) == <<o.km, IF o.pal THEN Min2(o.mid, CompD(o.mid)) ELSE o.mid>>

ReadPairs(reads, quals, k, rc, rule, minq, minCount) ==
   LET lst == PassingList(reads, quals, k, rc, rule, minq)
       classes == {ClassOf(lst[i]) : i \in 1..Len(lst)}
       count == [c \in classes |-> Cardinality({i \in 1..Len(lst) : ClassOf(lst[i]) = c})]
       kept == {lst[i] : i \in {j \in 1..Len(lst) : count[ClassOf(lst[j])] >= Max2(minCount, 1)}}
   IN ObsPairs(kept)

\* every pair that any passing window exhibits (what a collision could at most let in)
SeenPairs(reads, quals, k, rc, rule, minq) ==
   LET lst == PassingList(reads, quals, k, rc, rule, minq) IN ObsPairs({lst[i] : i \in 1..Len(lst)})
=============================================================================
