------------------------------ MODULE LoCall ------------------------------
(***************************************************************************)
(* The calling stages of `ska lo` without a reference genome               *)
(* (src/skalo/process_indels.rs and process_variants.rs), on top of        *)
(* LoGraph's variant groups:                                               *)
(*                                                                         *)
(*  indels  - indel groups are taken shortest first (ties: entry, exit);   *)
(*            a group is kept unless its entry node is already claimed;    *)
(*            its four extremity (k-1)-mers become claimed.  A kept group  *)
(*            is written when both alleles have a pure carrier and the     *)
(*            fraction of samples with neither or both is within -m:       *)
(*            alleles = paths minus entry node and common suffix ('-' if   *)
(*            empty), REF = the allele carried by more samples (first      *)
(*            path on a tie), flanks = entry node / common suffix.         *)
(*  SNPs    - paths holding more than two claimed indel (k-1)-mers are     *)
(*            dropped; groups are taken by decreasing paths/length (ties:  *)
(*            entry, exit), skipping those on a claimed indel node; every  *)
(*            candidate position with two different bases gives a column   *)
(*            (sample -> base of the full k-mer ending there, N when two   *)
(*            bases), unless one of its flanking full k-mers was already   *)
(*            used by an earlier group; kept if >= 2 of A/C/G/T and the    *)
(*            non-base fraction is within -m.                              *)
(*                                                                         *)
(* The result is the multiset of SNP columns and the set of indel records; *)
(* `panic` says that the code would index a path out of range.             *)
(***************************************************************************)
EXTENDS LoGraph

\* lexicographic order on pairs of nodes (the packed integers' order)
KeyLess(a, b) == IF a[1] # b[1] THEN LexLess(a[1], b[1]) ELSE LexLess(a[2], b[2])
SamplesOfFullIn(A, full) == (CHOOSE f \in A : f[1] = full)[2]

\* ---- indels --------------------------------------------------------------------------------------------
TotalLen(g) == LET RECURSIVE sum(_)
                   sum(i) == IF i > Len(g[3]) THEN 0 ELSE Len(g[3][i].seq) + sum(i + 1)
               IN sum(1)
IndelLess(a, b) == IF TotalLen(a) # TotalLen(b) THEN TotalLen(a) < TotalLen(b) ELSE KeyLess(a, b)
\* <<kept groups (set), claimed nodes (set)>>
Dereplicate(FI) ==
   LET order == SetToSortSeq(FI, IndelLess)
       RECURSIVE go(_, _, _)
       go(i, kept, claimed) ==
          IF i > Len(order) THEN <<kept, claimed>>
          ELSE LET g == order[i] IN
               IF g[1] \in claimed THEN go(i + 1, kept, claimed)
               ELSE go(i + 1, kept \cup {g}, claimed \cup {g[1], RevComp(g[1]), g[2], RevComp(g[2])})
   IN go(1, {}, {})

\* longest common suffix of two sequences that is shorter than... as the code finds it: n grows while the last n bases
\* of every reduced path exist and agree
CommonSuffixLen(qs) ==
   LET RECURSIVE grow(_)
       grow(n) == IF \E i \in 1..Len(qs) : n > Len(qs[i]) THEN n - 1
                  ELSE IF Cardinality({SubSeq(qs[i], Len(qs[i]) - n + 1, Len(qs[i])) : i \in 1..Len(qs)}) > 1 THEN n - 1
                  ELSE grow(n + 1)
   IN grow(1)

WithinMissing(miss, n, mm) == miss * mm[2] <= mm[1] * n        \* miss/n <= mm[1]/mm[2]

\* the record of one kept indel group, or <<>> when it is filtered out
\* record = [ref, alt, before, after, gts]  (alleles and flanks as digit tuples, <<>> = '-'; gts: 0, 1, 2 = "0/1", 3 = ".")
IndelRecord(g, A, nsamp, kg, mm) ==
   LET v == g[3]
       sets == [i \in 1..2 |-> SamplesOfFullIn(A, SubSeq(v[i].seq, 1, kg + 1))]
       both == sets[1] \cap sets[2]
       neither == (1..nsamp) \ (sets[1] \cup sets[2])
       red == [i \in 1..2 |-> SubSeq(v[i].seq, kg + 1, Len(v[i].seq))]
       n == CommonSuffixLen(red)
       lastFull == SubSeq(red[1], Len(red[1]) - n + 1, Len(red[1]))
       last == IF Len(lastFull) > kg THEN SubSeq(lastFull, 1, kg) ELSE lastFull
       mid == [i \in 1..2 |-> SubSeq(red[i], 1, Len(red[i]) - n)]
       refI == IF Cardinality(sets[2]) > Cardinality(sets[1]) THEN 2 ELSE 1      \* stable sort: the first path on a tie
       altI == 3 - refI
       gt(s) == IF s \in sets[refI] /\ s \in sets[altI] THEN 2 ELSE IF s \in sets[refI] THEN 0 ELSE IF s \in sets[altI] THEN 1 ELSE 3
   IN IF WithinMissing(Cardinality(both) + Cardinality(neither), nsamp, mm) /\ sets[1] \ sets[2] # {} /\ sets[2] \ sets[1] # {}
      THEN <<[ref |-> mid[refI], alt |-> mid[altI], before |-> SubSeq(v[1].seq, 1, kg), after |-> last,
              gts |-> [s \in 1..nsamp |-> gt(s)]]>>
      ELSE <<>>

\* ---- SNPs ----------------------------------------------------------------------------------------------------
ClaimedInside(seq, claimed, kg) == Cardinality({i \in 1..(Len(seq) - kg) : SubSeq(seq, i, i + kg - 1) \in claimed})
\* a group after dropping the paths that run through more than maxIndelKmers claimed nodes
Pruned(g, claimed, kg, maxIndelKmers) ==
   <<g[1], g[2], SelectSeq(g[3], LAMBDA v : ClaimedInside(v.seq, claimed, kg) <= maxIndelKmers)>>
\* decreasing paths / length of the first path; ties by key
RatioLess(a, b) == LET na == Len(a[3]) la == Len(a[3][1].seq) nb == Len(b[3]) lb == Len(b[3][1].seq) IN
                   IF na * lb # nb * la THEN na * lb > nb * la ELSE KeyLess(a, b)
Letter(d) == CASE d = 0 -> 65 [] d = 1 -> 67 [] d = 2 -> 84 [] OTHER -> 71

\* one group: <<columns found (sequence), full k-mers to remember (set), panic>>
CallGroup(g, A, done, nsamp, kg, mm) ==
   LET v == g[3]
       cand == UNION {v[i].pos : i \in 1..Len(v)}
       real == {p \in cand : Cardinality({v[i].seq[p + 1] : i \in {j \in 1..Len(v) : p >= 0 /\ p < Len(v[j].seq)}}) > 1}
       oob == \E p \in real : \E i \in 1..Len(v) : p - kg < 0 \/ p + kg + 1 > Len(v[i].seq)
       fb(i, p) == SubSeq(v[i].seq, p - kg + 1, p + 1)
       fa(i, p) == SubSeq(v[i].seq, p + 1, p + kg + 1)
       fresh(p) == \A i \in 1..Len(v) : fb(i, p) \notin done /\ RevComp(fa(i, p)) \notin done
       basesOf(s, p) == {fb(i, p)[kg + 1] : i \in {j \in 1..Len(v) : s \in SamplesOfFullIn(A, fb(j, p))}}
       col(p) == [s \in 1..nsamp |-> LET bs == basesOf(s, p) IN
                                     IF bs = {} THEN 45 ELSE IF Cardinality(bs) = 1 THEN Letter(CHOOSE x \in bs : TRUE) ELSE 78]
       good(p) == LET c == col(p) IN
                  /\ fresh(p)
                  /\ Cardinality({c[s] : s \in 1..nsamp} \cap {65, 67, 71, 84}) >= 2
                  /\ WithinMissing(Cardinality({s \in 1..nsamp : c[s] \notin {65, 67, 71, 84}}), nsamp, mm)
       found == {p \in real : good(p)}
       kmers == UNION {UNION {{fb(i, p), RevComp(fb(i, p)), fa(i, p), RevComp(fa(i, p))} : i \in 1..Len(v)} : p \in found}
   IN IF oob THEN <<<<>>, {}, TRUE, <<>>>>
      ELSE <<[i \in 1..Cardinality(found) |-> col(SetToSortSeq(found, <)[i])], kmers, FALSE, SetToSortSeq(found, <)>>

\* ---- positioning on a reference genome (positioning.rs) ---------------------------------------------------------
\* The reference is one sequence of bytes (upper-cased on reading).  Every (k-1)-mer of A/C/G/T remembers the index
\* of the base after it, for its first three occurrences.
RefUpper(g) == [i \in 1..Len(g) |-> ToUpper(g[i])]
RefPositions(g, kg, w) ==
   LET occ == {n \in 0..(Len(g) - kg) : /\ \A j \in 1..kg : g[n + j] \in {65, 67, 71, 84}
                                          /\ [x \in 1..kg |-> Enc(g[n + x])] = w}
       first3 == {n \in occ : Cardinality({m \in occ : m < n}) < 3}
   IN {n + kg : n \in first3}
\* votes of a set of paths for "index after the first node if the path lay on the genome": one vote per path, window
\* and remembered occurrence; the winner needs a strict majority over every other value and at least 10 votes
Votes(seqs, g, kg) ==
   UNION {UNION {{<<i, pos, r>> : r \in RefPositions(g, kg, SubSeq(seqs[i], pos + 1, pos + kg))}
                 : pos \in 0..(Len(seqs[i]) - kg)} : i \in 1..Len(seqs)}
Winner(V) ==
   LET vals == {v[3] - v[2] : v \in V}
       cnt(x) == Cardinality({v \in V : v[3] - v[2] = x})
       top == {x \in vals : \A y \in vals : cnt(x) >= cnt(y)}
   IN IF Cardinality(top) = 1 /\ cnt(CHOOSE x \in top : TRUE) >= 10
      THEN <<TRUE, CHOOSE x \in top : TRUE, cnt(CHOOSE x \in top : TRUE)>> ELSE <<FALSE, 0, 0>>
\* <<positioned, position, forward>>
ScanVariants(v, g, kg) ==
   LET fw == Winner(Votes([i \in 1..Len(v) |-> v[i].seq], g, kg))
       rv == Winner(Votes([i \in 1..Len(v) |-> RevComp(v[i].seq)], g, kg))
   IN IF fw[1] /\ rv[1] THEN (IF fw[3] = rv[3] THEN <<FALSE, 0, TRUE>> ELSE IF fw[3] > rv[3] THEN <<TRUE, fw[2], TRUE>> ELSE <<TRUE, rv[2], FALSE>>)
      ELSE IF fw[1] THEN <<TRUE, fw[2], TRUE>> ELSE IF rv[1] THEN <<TRUE, rv[2], FALSE>> ELSE <<FALSE, 0, TRUE>>
CompLetter(c) == CASE c = 65 -> 84 [] c = 84 -> 65 [] c = 67 -> 71 [] c = 71 -> 67 [] OTHER -> c

\* ---- the whole call --------------------------------------------------------------------------------------------
LoCall(T, maxDepth, mm, maxIndelKmers) ==
   LET kg == T.k - 1
       nsamp == Len(T.names)
       A == AllFulls(T)
       B == BuiltGroupsSeq(T, maxDepth)
       isTwoLen(g) == Len(g[3]) = 2 /\ Len(g[3][1].seq) # Len(g[3][2].seq)
       FI == {g \in B : isTwoLen(g) /\ (Len(g[3][1].seq) <= 2 * kg \/ Len(g[3][2].seq) <= 2 * kg)}
       FG == {g \in B : Len(g[3]) >= 2 /\ ~isTwoLen(g)}
       der == Dereplicate(FI)
       claimed == der[2]
       records == UNION {LET r == IndelRecord(g, A, nsamp, kg, mm) IN IF r = <<>> THEN {} ELSE {r[1]} : g \in der[1]}
       pruned == {h \in {Pruned(g, claimed, kg, maxIndelKmers) : g \in FG} : Len(h[3]) >= 1}
       order == SetToSortSeq(pruned, RatioLess)
       RECURSIVE go(_, _, _, _)
       go(i, done, cols, panic) ==
          IF i > Len(order) \/ panic THEN [cols |-> cols, panic |-> panic]
          ELSE LET g == order[i] IN
               IF g[1] \in claimed \/ RevComp(g[2]) \in claimed \/ Len(g[3]) < 2 THEN go(i + 1, done, cols, panic)
               ELSE LET r == CallGroup(g, A, done, nsamp, kg, mm) IN go(i + 1, done \cup r[2], cols \o r[1], r[3])
       snps == go(1, {}, <<>>, FALSE)
   IN [columns |-> snps.cols, panic |-> snps.panic, records |-> records, groups |-> Unordered(FG), indels |-> Unordered(FI)]

\* The same with a reference genome (-r): every group that yields a SNP is placed by ScanVariants; its SNPs go to
\* genome index position + (p - kg) (forward) or position + (L - p - kg - 1) with the column complemented (reverse);
\* an index already taken keeps its first column.  Output (output_snps.rs): the SNPs inside the genome in order,
\* one VCF record each (REF = genome base, N if not A/C/G/T/N; ALT = the other bases present, in byte order;
\* genotype = index, '.' for '-' and N), and per sample the genome with its bases substituted.
LoCallRef(T, maxDepth, mm, maxIndelKmers, genome) ==
   LET kg == T.k - 1
       nsamp == Len(T.names)
       g == RefUpper(genome)
       A == AllFulls(T)
       B == BuiltGroupsSeq(T, maxDepth)
       isTwoLen(h) == Len(h[3]) = 2 /\ Len(h[3][1].seq) # Len(h[3][2].seq)
       FI == {h \in B : isTwoLen(h) /\ (Len(h[3][1].seq) <= 2 * kg \/ Len(h[3][2].seq) <= 2 * kg)}
       FG == {h \in B : Len(h[3]) >= 2 /\ ~isTwoLen(h)}
       der == Dereplicate(FI)
       claimed == der[2]
       records == UNION {LET r == IndelRecord(h, A, nsamp, kg, mm) IN IF r = <<>> THEN {} ELSE {r[1]} : h \in der[1]}
       pruned == {h \in {Pruned(x, claimed, kg, maxIndelKmers) : x \in FG} : Len(h[3]) >= 1}
       order == SetToSortSeq(pruned, RatioLess)
       \* placed: function genome index -> column
       RECURSIVE place(_, _, _, _, _, _)
       place(r, where, L, i, placed, dummy) ==
          IF i > Len(r[4]) THEN placed
          ELSE LET p == r[4][i]
                   at == IF where[3] THEN where[2] + (p - kg) ELSE where[2] + (L - p - kg - 1)
                   col == IF where[3] THEN r[1][i] ELSE [s \in 1..nsamp |-> CompLetter(r[1][i][s])]
               IN place(r, where, L, i + 1, IF at \in DOMAIN placed THEN placed ELSE [x \in DOMAIN placed \cup {at} |-> IF x = at THEN col ELSE placed[x]], dummy)
       RECURSIVE go(_, _, _, _)
       go(i, done, placed, panic) ==
          IF i > Len(order) \/ panic THEN [placed |-> placed, panic |-> panic]
          ELSE LET h == order[i] IN
               IF h[1] \in claimed \/ RevComp(h[2]) \in claimed \/ Len(h[3]) < 2 THEN go(i + 1, done, placed, panic)
               ELSE LET r == CallGroup(h, A, done, nsamp, kg, mm) IN
                    IF r[3] \/ Len(r[4]) = 0 THEN go(i + 1, done \cup r[2], placed, r[3])
                    ELSE LET where == ScanVariants(h[3], g, kg) IN
                         go(i + 1, done \cup r[2], IF where[1] THEN place(r, where, Len(h[3][1].seq), 1, placed, 0) ELSE placed, FALSE)
       res == go(1, {}, [x \in {} |-> <<>>], FALSE)
       inside == {x \in DOMAIN res.placed : x >= 0 /\ x < Len(g)}
       posSeq == SetToSortSeq(inside, <)
       refBase(x) == IF g[x + 1] \in {65, 84, 71, 67, 78} THEN g[x + 1] ELSE 78
       vcfOf(x) == LET col == res.placed[x]
                       rb == refBase(x)
                       alts == SetToSortSeq({col[s] : s \in 1..nsamp} \ {rb, 45, 78}, <)
                       idxOf(c) == CHOOSE j \in 1..Len(alts) : alts[j] = c
                   IN [pos |-> x + 1, ref |-> rb, alt |-> alts,
                       gts |-> [s \in 1..nsamp |-> IF col[s] = rb THEN 0 ELSE IF col[s] \in {45, 78} THEN -1 ELSE idxOf(col[s])]]
   IN [panic |-> res.panic, records |-> records,
       columns |-> [i \in 1..Len(posSeq) |-> res.placed[posSeq[i]]],
       vcf |-> [i \in 1..Len(posSeq) |-> vcfOf(posSeq[i])],
       pseudo |-> [s \in 1..nsamp |-> [x \in 1..Len(g) |-> IF (x - 1) \in inside THEN res.placed[x - 1][s] ELSE refBase(x - 1)]]]
=============================================================================
