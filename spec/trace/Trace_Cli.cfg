SPECIFICATION Spec
INVARIANT AtEnd
CHECK_DEADLOCK FALSE
