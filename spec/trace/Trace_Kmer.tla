----------------------------- MODULE Trace_Kmer -----------------------------
(***************************************************************************)
(* Trace specification for executions of the k-mer layer of the real code  *)
(* (C01, C02, C12 windows, C15, C16): one step per recorded event; the     *)
(* event's inputs are given to the specification's operators and the       *)
(* recorded result must be what they allow.  A rejected event is recorded  *)
(* in `bad` and the rest of the trace is still checked.                    *)
(***************************************************************************)
EXTENDS Table, TLC, Json, IOUtils

Rec == ndJsonDeserialize(IOEnv.TRACE)

VARIABLES l, bad
vars == <<l, bad>>

Has(r, f) == f \in DOMAIN r

(* ---- iter: the real SplitKmer stepped over one record ------------------ *)
StepEq(a, o) == /\ a.km = o.km /\ a.mid = o.mid /\ a.isrc = o.isrc
                /\ a.pal = o.pal /\ a.pos = o.pos /\ a.mq = o.mq
IterOK(e) ==
   LET c == e.ctx
       decl == ObsList(c.seq, c.qual, c.k, c.rc, c.qf, c.minq)
   IN /\ e.panic = ""
      /\ e.none = (decl = <<>>)
      /\ Len(e.steps) = Len(decl)
      /\ \A i \in 1..Len(decl) : StepEq(e.steps[i], decl[i])
      \* read hashes: rolled value = from-scratch value of the same window
      \* (a window of exactly k bases built from scratch yields its one k-mer: no value logged = the build gave nothing)
      /\ \A i \in 1..Len(e.steps) : Has(e.steps[i], "h") => (Has(e.steps[i], "hs") /\ e.steps[i].h = e.steps[i].hs)

(* ---- dict: SkaDict::new on FASTA records -------------------------------- *)
LoggedPairs(d) == UNION {{<<x[1], dg>> : dg \in IupacSet(x[2])} : x \in ToSet(d)}
UniqueKeys(d) == Cardinality({x[1] : x \in ToSet(d)}) = Len(d)
ValidCodes(d) == \A x \in ToSet(d) : x[2] \in IupacLetters
DictIs(d, pairs) == UniqueKeys(d) /\ ValidCodes(d) /\ LoggedPairs(d) = pairs
DictOK(e) ==
   LET c == e.ctx
       pairs == ObsPairs(AllFaObs(c.recs, c.k, c.rc))
   IN IF pairs = {} THEN e.panic # ""           \* nothing to build: the tool refuses
      ELSE e.panic = "" /\ DictIs(e.dict, pairs) /\ e.n = Len(e.dict)

(* ---- xform: C02.  ctx.base = original records, ctx.recs = transformed ---- *)
Concat(lines) == LET RECURSIVE C(_) C(i) == IF i > Len(lines) THEN <<>> ELSE lines[i] \o C(i + 1) IN C(1)
ToggleCase(b) == IF IsLower(b) THEN ToUpper(b) ELSE ToLower(b)
IsXform(c) ==
   LET base == c.base  new == c.recs IN
   CASE c.kind = "revcomp" ->      \* c.arg = tuple of booleans: which records are flipped
           /\ Len(new) = Len(base)
           /\ \A i \in 1..Len(base) : new[i] = IF c.arg[i] THEN RevCompBytes(base[i]) ELSE base[i]
     [] c.kind = "permute" ->      \* c.arg = permutation: new[i] = base[arg[i]]
           /\ Len(new) = Len(base) /\ ToSet(c.arg) = 1..Len(base)
           /\ \A i \in 1..Len(base) : new[i] = base[c.arg[i]]
     [] c.kind = "case" ->         \* c.arg = per record tuple of booleans (toggle case)
           /\ Len(new) = Len(base)
           /\ \A i \in 1..Len(base) : /\ Len(new[i]) = Len(base[i])
                                      /\ \A j \in 1..Len(base[i]) :
                                            new[i][j] = IF c.arg[i][j] THEN ToggleCase(base[i][j]) ELSE base[i][j]
     [] c.kind = "wrap" ->         \* c.lines = per record the lines written to the file
           /\ new = base /\ Len(c.lines) = Len(base)
           /\ \A i \in 1..Len(base) : Concat(c.lines[i]) = base[i]
     [] c.kind = "gzip" -> new = base
     [] OTHER -> FALSE
XformOK(e) ==
   LET c == e.ctx
       pairs == ObsPairs(AllFaObs(c.base, c.k, c.rc))    \* dictionary of the ORIGINAL input
   IN /\ Assert(IsXform(c), <<"DRIVER-DRIFT: input is not the stated transformation", c.kind>>)
      /\ (c.kind = "revcomp" => c.rc)
      /\ IF pairs = {} THEN e.panic # "" ELSE e.panic = "" /\ DictIs(e.dict, pairs)

(* ---- nk: `ska nk --full-info` on a file built from ctx.samples ----------- *)
TableIs(t, T) ==
   /\ t.k = T.k /\ t.rc = T.rc /\ t.names = T.names
   /\ ToSet(t.rows) = T.rows /\ Len(t.rows) = Cardinality(T.rows)
   /\ t.ksize = Cardinality(T.rows)
   /\ t.nsk = NSampleKmers(T)
NkOK(e) ==
   LET c == e.ctx
       T == BuildTable(c.samples, c.names, c.k, c.rc)
   IN IF BuildRefused(c.samples, c.k, c.rc) THEN e.panic # ""   \* a sample without any window: refused
      ELSE
      e.panic = "" /\ TableIs(e.table, T)
      /\ (Has(c, "perm") =>      \* C02: permuting the input samples permutes the columns
            LET U == BuildTable(c.orig, c.orignames, c.k, c.rc) IN
            /\ \A i \in 1..Len(c.perm) : c.samples[i] = c.orig[c.perm[i]] /\ c.names[i] = c.orignames[c.perm[i]]
            /\ ToSet(e.table.rows) = {<<r[1], [i \in 1..Len(c.perm) |-> r[2][c.perm[i]]]>> : r \in U.rows})

(* ---- hash: rolled ntHash = from scratch; strand symmetry ------------------ *)
HashOK(e) ==
   LET c == e.ctx IN
   /\ e.panic = ""
   /\ e.rolled = e.scratch
   /\ Len(e.scratch) = Max2(Len(c.seq) + 1 - c.k, 0)
   /\ Assert(c.rcseq = RevCompBytes(c.seq), "DRIVER-DRIFT: rcseq")
   /\ (c.rc => e.rc_scratch = Reverse(e.scratch))      \* a k-mer and its reverse complement hash alike
   /\ e.rc_rolled = e.rc_scratch

(* ---- prim: packing, reverse complement, masks, decode (C16) --------------- *)
\* e.enc etc. are ALL digits of the machine word (W = 32 or 64 digits), most significant first
PadTo(W, d) == [i \in 1..W |-> IF i <= W - Len(d) THEN 0 ELSE d[i - (W - Len(d))]]
PrimOne(W, k, r) ==
   LET d == EncSeq(r.s)   n == Len(r.s) IN
   /\ r.enc = PadTo(W, d)                          \* pack
   /\ r.rc = PadTo(W, RevComp(d))                  \* packed reverse complement = pack(revcomp string)
   /\ r.rcrc = r.enc                               \* involution
   /\ (Has(r, "dec_u") => r.dec_u \o r.dec_l = [i \in 1..n |-> ToUpper(r.s[i])]
                          /\ Len(r.dec_u) = Half(k))      \* unpack returns the original bases
   /\ (Has(r, "skalo_dec") => r.skalo_dec = [i \in 1..n |-> ToUpper(r.s[i])])
PrimOK(e) ==
   LET W == e.w \div 2   h == Half(e.k) IN
   /\ e.panic = ""
   /\ e.lower_mask = [i \in 1..W |-> IF i > W - h THEN 3 ELSE 0]
   /\ e.upper_mask = [i \in 1..W |-> IF i > W - 2 * h /\ i <= W - h THEN 3 ELSE 0]
   /\ \A i \in 1..Len(e.res) : PrimOne(W, e.k, e.res[i])

(* ---- C15 tables (complete enumeration) ------------------------------------- *)
IupacRowOK(e) == \A c \in 0..255 : e.row[c + 1] = AddBase(c, e.base)
RcRowOK(e) == /\ \A c \in 0..255 : e.row[c + 1] = CompCode(c)
              /\ \A c \in 0..255 : IsIupac(c) => e.row[e.row[c + 1] + 1] = ToUpper(c)   \* involution
              /\ \A c \in {83, 87, 78, 45} : e.row[c + 1] = c                            \* fixed points
ClassDomain == {c \in 0..255 : IsIupac(c) \/ ToUpper(c) = 85 \/ c = 45}
AmbigRowOK(e) == \A c \in ClassDomain : e.row[c + 1] = IsAmbig(c)
ProbRowOK(e) == \A c \in ClassDomain : e.row[c + 1] = Weights6(c)
EncRowOK(e) == \A c \in BaseBytes : e.row[c + 1] = Enc(c)

Accept(e) ==
   CASE e.ev = "iter" -> IterOK(e)
     [] e.ev = "dict" -> DictOK(e)
     [] e.ev = "xform" -> XformOK(e)
     [] e.ev = "nk" -> NkOK(e)
     [] e.ev = "hash" -> HashOK(e)
     [] e.ev = "prim" -> PrimOK(e)
     [] e.ev = "prim.iupac" -> IupacRowOK(e)
     [] e.ev = "prim.rc" -> RcRowOK(e)
     [] e.ev = "prim.ambig" -> AmbigRowOK(e)
     [] e.ev = "prim.prob" -> ProbRowOK(e)
     [] e.ev = "prim.enc" -> EncRowOK(e)
     [] OTHER -> FALSE

Init == l = 1 /\ bad = {}
Next == /\ l <= Len(Rec)
        /\ LET ok == Accept(Rec[l]) IN bad' = IF ok THEN bad ELSE bad \cup {l}
        /\ l' = l + 1
Spec == Init /\ [][Next]_vars

AtEnd == l > Len(Rec) => PrintT(<<"TRACE-END", ToJson([n |-> Len(Rec), bad |-> SetToSortSeq(bad, <)])>>)
=============================================================================
