SPECIFICATION Spec
CONSTANTS
  Dev = {}
INVARIANT AtEnd
CHECK_DEADLOCK FALSE
