------------------------------ MODULE Trace_Map ------------------------------
(***************************************************************************)
(* Trace specification for recorded `ska map` executions (C04, C05, and    *)
(* the reference index used by weed, C13).  Events:                        *)
(*   ref : RefSka::new on a reference - index list and repeat coordinates  *)
(*   map : one mapping of a table onto a reference - per-sample sequences  *)
(*         (-f aln) and the parsed VCF (-f vcf) of the SAME inputs/flags   *)
(* Each is accepted iff it equals the declarative definitions of RefMap.   *)
(***************************************************************************)
EXTENDS RefMap, TLC, Json, IOUtils

Rec == ndJsonDeserialize(IOEnv.TRACE)

VARIABLES l, bad, drift
vars == <<l, bad, drift>>

Has(r, f) == f \in DOMAIN r
TableOfJson(t) == [k |-> t.k, rc |-> t.rc, names |-> t.names, rows |-> ToSet(t.rows)]

\* `ref` events: RefSka::new on a reference.  Observable: a reference without any valid window is refused, any other is
\* accepted.  The index entries and the repeat-mask coordinates are private state seen through hooks: they are compared
\* with RefMap.tla as CONFORMANCE (a difference = model drift; what `map` prints is judged by the map events).
RefOK(e) ==
   LET c == e.ctx
       idx == RefIndex(c.contigs, c.k, c.rc)
   IN IF idx = <<>> THEN e.panic # "" ELSE e.panic = ""
RefConforms(e) ==
   LET c == e.ctx
       idx == RefIndex(c.contigs, c.k, c.rc)
   IN idx = <<>> \/ e.panic # "" \/
      /\ Len(e.index) = Len(idx)
      /\ \A i \in 1..Len(idx) :
            e.index[i] = <<idx[i].km, idx[i].mid, idx[i].pos, idx[i].chrom, idx[i].isrc>>
      /\ e.ksize = Len(idx)
      /\ (c.repeat_mask =>
            /\ ToSet(e.repeats) = RepeatCoords(c.contigs, idx, c.k)
            /\ Cardinality(ToSet(e.repeats)) = Len(e.repeats))
      /\ (~c.repeat_mask => e.repeats = <<>>)

\* no reference k-mer found in the table: the tool refuses ("No split k-mers mapped")
NothingMapped(idx, T) == \A i \in 1..Len(idx) : idx[i].km \notin Kms(T)

MapOK(e) ==
   LET c == e.ctx
       T == TableOfJson(c.table)
       idx == RefIndex(c.contigs, T.k, T.rc)
   IN IF idx = <<>> \/ NothingMapped(idx, T) THEN e.panic # ""
      ELSE
      /\ e.panic = ""
      \* C04: every sample's sequence is the declarative mapped alignment
      /\ (Has(e, "aln") =>
            /\ e.aln.names = T.names
            /\ Len(e.aln.seqs) = NSamples(T)
            /\ \A s \in 1..NSamples(T) :
                  e.aln.seqs[s] = MappedAln(c.contigs, T.k, idx, T, s, c.ambig_mask, c.repeat_mask))
      \* C05: the VCF says exactly what the alignment says
      /\ (Has(e, "vcf") =>
            LET aln == [s \in 1..NSamples(T) |-> MappedAln(c.contigs, T.k, idx, T, s, c.ambig_mask, c.repeat_mask)]
            IN VcfOK(c.contigs, c.cnames, aln, T.names, e.vcf))

\* aln: the real AlnWriter driven directly with an arbitrary increasing sequence of centres over contigs
\* far larger than MC_AlnWriter's shapes.  The code-shaped writer of RefMap.tla is stepped alongside:
\* its output and the declarative ExpectOut must both equal the recorded sequence (verdict); the
\* recorded scalars after every call are compared with the model's (reported by AlnDrift, not a verdict).
AlnOK(e) ==
   LET c == e.ctx
       reps == ToSet(c.repeats)
       final == WFinalise(WRun(WNew(c.contigs, c.k), c.contigs, c.k, c.writes, 1, c.mask_ambig), c.contigs, c.k, reps)
   IN /\ e.panic = ""
      /\ e.out = ExpectOut(c.contigs, c.k, c.writes, c.mask_ambig, reps)
      /\ e.out = final.out
      /\ e.total = TotalLen(c.contigs)

Accept(e) == CASE e.ev = "ref" -> RefOK(e)
               [] e.ev = "aln" -> AlnOK(e)
               [] e.ev = "map" -> MapOK(e)
               [] OTHER -> FALSE

Init == l = 1 /\ bad = {} /\ drift = 0
Next == /\ l <= Len(Rec)
        /\ LET ok == Accept(Rec[l]) IN bad' = IF ok THEN bad ELSE bad \cup {l}
        /\ drift' = IF Rec[l].ev = "ref" /\ ~RefConforms(Rec[l]) THEN drift + 1 ELSE drift
        /\ l' = l + 1
Spec == Init /\ [][Next]_vars
AtEnd == l > Len(Rec) => PrintT(<<"TRACE-END", ToJson([n |-> Len(Rec), bad |-> SetToSortSeq(bad, <), drift |-> drift])>>)
=============================================================================
