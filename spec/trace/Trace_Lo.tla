------------------------------- MODULE Trace_Lo -------------------------------
(***************************************************************************)
(* Trace specification for recorded `ska lo` runs (C17, C18).  Events:     *)
(*   lo.snps   : a planted-substitution scenario (ancestor, sites, alleles, *)
(*               derived samples with coordinates), k, thread count, -m,   *)
(*               reference mode; the parsed _snps.fas / _snps.vcf /        *)
(*               _pseudo_genomes.fas                                       *)
(*   lo.any    : arbitrary input: only well-formedness of the SNP alignment *)
(*   lo.indels : a planted-indel scenario and the parsed _indels.vcf       *)
(* The specification re-derives the samples, evaluates the preconditions   *)
(* itself, and accepts iff the outputs are what Lo.tla demands.  Reported  *)
(* and planted indel counts are accumulated for the 90% completeness bound.*)
(***************************************************************************)
EXTENDS Lo, TLC, Json, IOUtils

Rec == ndJsonDeserialize(IOEnv.TRACE)

VARIABLES l, bad, planted, reported, plantedT, reportedT
vars == <<l, bad, planted, reported, plantedT, reportedT>>

Has(r, f) == f \in DOMAIN r

SnpsOK(e) ==
   LET c == e.ctx
       pre == Pre17(c.sites, c.samples, c.k)
   IN /\ Assert(DerivationOK(c.ancestor, c.sites, c.alleles, c.samples), "DRIVER-DRIFT: samples are not the stated derivation")
      /\ Assert(pre = c.pre_strict, "DRIVER-DRIFT: precondition evaluated differently by driver and specification")
      /\ e.panic = ""
      \* every run: well formed
      /\ e.names = c.names
      /\ WellFormedSnps(e.seqs, c.missing[1], c.missing[2])
      /\ (pre =>
            /\ SnpColumnsOK(e.names, e.seqs, c.names, c.alleles)           \* one column per site, up to order and strand
            /\ (c.refmode =>
                  /\ LoVcfOK(c.ancestor, c.sites, c.alleles, e.vcf)          \* true coordinate, true alleles
                  /\ PseudoOK(c.ancestor, c.sites, c.alleles, e.pseudo)
                  \* with a reference the columns come in coordinate order on the reference strand
                  /\ ColumnsOf(e.seqs) = [j \in 1..Len(c.sites) |-> c.alleles[j]]))

AnyOK(e) == e.panic = "" /\ (e.refused \/ WellFormedSnps(e.seqs, e.ctx.missing[1], e.ctx.missing[2]))

IndelsOK(e) ==
   LET c == e.ctx IN
   /\ e.panic = ""
   \* (coordinates shift behind an indel, so uniqueness of (k-1)-mers is required of each sample on its own)
   /\ Assert(c.pre_strict = (\A s \in 1..Len(c.samples) : MersUniquePerPosition(<<c.samples[s]>>, c.k - 1)),
             "DRIVER-DRIFT: precondition")
   /\ (c.pre_strict =>
         /\ \A i \in 1..Len(e.records) : RecordReal(e.records[i], c.samples)
         /\ RecordsMatchPlanted(e.records, c.planted))

Accept(e) == CASE e.ev = "lo.snps" -> SnpsOK(e)
               [] e.ev = "lo.any" -> AnyOK(e)
               [] e.ev = "lo.indels" -> IndelsOK(e)
               [] OTHER -> FALSE

\* two strata are counted separately for the 90% bound: generic indels, and "tandem" ones whose bases copy
\* their neighbours (run extensions), where both paths of the bubble are short
Counts(e, ok, stratum) == IF e.ev = "lo.indels" /\ e.ctx.pre_strict /\ e.ctx.stratum = stratum
                          THEN <<Len(e.ctx.planted), IF ok THEN Len(e.records) ELSE 0>> ELSE <<0, 0>>
Init == l = 1 /\ bad = {} /\ planted = 0 /\ reported = 0 /\ plantedT = 0 /\ reportedT = 0
Next == /\ l <= Len(Rec)
        /\ LET e == Rec[l]  ok == Accept(e) IN
           /\ bad' = IF ok THEN bad ELSE bad \cup {l}
           /\ planted' = planted + Counts(e, ok, "generic")[1]
           /\ reported' = reported + Counts(e, ok, "generic")[2]
           /\ plantedT' = plantedT + Counts(e, ok, "tandem")[1]
           /\ reportedT' = reportedT + Counts(e, ok, "tandem")[2]
        /\ l' = l + 1
Spec == Init /\ [][Next]_vars
AtEnd == l > Len(Rec) => PrintT(<<"TRACE-END", ToJson([n |-> Len(Rec), bad |-> SetToSortSeq(bad, <), planted |-> planted, reported |-> reported, plantedT |-> plantedT, reportedT |-> reportedT])>>)
=============================================================================
