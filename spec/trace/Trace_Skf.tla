------------------------------ MODULE Trace_Skf ------------------------------
(***************************************************************************)
(* Trace specification for fault-injection runs against the real .skf      *)
(* loaders (C19).  Every event is one damaged copy of a valid file (or an  *)
(* aggregate over all damaged copies of one region of one frame) together  *)
(* with what the loaders did.  The event is accepted iff the verdict is    *)
(* one the SkfFile model allows: rejected, or decoded to the original      *)
(* content.  A verdict the model allows but does not PREDICT for that      *)
(* region (e.g. "same" after a flipped checksum byte) is counted as model  *)
(* drift, not as a violation.                                              *)
(***************************************************************************)
EXTENDS Naturals, Sequences, FiniteSets, TLC, Json, IOUtils, SequencesExt

CONSTANT Dev
SF == INSTANCE SkfFile

Rec == ndJsonDeserialize(IOEnv.TRACE)

VARIABLES l, bad, drift
vars == <<l, bad, drift>>

\* the verdicts the model predicts for a single flipped bit in a region / for a truncation
Predicted(kind, region) ==
   IF kind = "trunc" THEN {"rejected"}
   ELSE LET effs == SF!FlipEffects([part |-> region]) IN
        {SF!LoadDamaged(1, 1, 5, ef) : ef \in effs}     \* complete one-frame file with that effect

Allowed == {"rejected", "same"}

FaultOK(e) == e.outcome \in Allowed
FaultDrift(e) == e.outcome \notin Predicted(e.kind, e.region)

AggOK(e) == e.different = 0 /\ e.rejected + e.same + e.different = e.n /\ e.n > 0
AggDrift(e) == e.same > 0 /\ "same" \notin Predicted(e.kind, e.region)

\* a subcommand run on a damaged copy: fails, or prints exactly what it prints for the original
CliOK(e) == e.rc # 0 \/ e.same_output

Ok(e) == CASE e.ev = "fault" -> FaultOK(e)
           [] e.ev = "fault.agg" -> AggOK(e)
           [] e.ev = "fault.cli" -> CliOK(e)
           [] OTHER -> FALSE
IsDrift(e) == CASE e.ev = "fault" -> FaultDrift(e)
                [] e.ev = "fault.agg" -> AggDrift(e)
                [] OTHER -> FALSE

Init == l = 1 /\ bad = {} /\ drift = 0
Next == /\ l <= Len(Rec)
        /\ bad' = IF Ok(Rec[l]) THEN bad ELSE bad \cup {l}
        /\ drift' = IF IsDrift(Rec[l]) THEN drift + 1 ELSE drift
        /\ l' = l + 1
Spec == Init /\ [][Next]_vars
AtEnd == l > Len(Rec) => PrintT(<<"TRACE-END", ToJson([n |-> Len(Rec), bad |-> SetToSortSeq(bad, <), drift |-> drift])>>)
=============================================================================
