----------------------------- MODULE Trace_Filter -----------------------------
(***************************************************************************)
(* Stateful trace validation of the real counting filter (C12): the driver *)
(* feeds reads to KmerFilter::filter through the public API and logs, per  *)
(* window, the k-mer's hash token and whether the filter said "add now".   *)
(* The trace specification carries the model's own filter state (Bloom set *)
(* and count table, KmerFilter.tla) and every event must be exactly the    *)
(* FilterStep the model takes on that hash.  Episodes start with `reset`   *)
(* (a fresh filter with the logged min_count).                             *)
(***************************************************************************)
EXTENDS KmerFilter, TLC, Json, IOUtils

Rec == ndJsonDeserialize(IOEnv.TRACE)

VARIABLES l, bad, f, minc, skip
vars == <<l, bad, f, minc, skip>>

Init == l = 1 /\ bad = {} /\ f = FilterInit /\ minc = 1 /\ skip = FALSE
Reset == /\ l <= Len(Rec) /\ Rec[l].ev = "reset"
         /\ f' = FilterInit /\ minc' = Rec[l].minc /\ skip' = FALSE /\ l' = l + 1 /\ UNCHANGED bad
Skip == /\ l <= Len(Rec) /\ Rec[l].ev # "reset" /\ skip
        /\ l' = l + 1 /\ UNCHANGED <<bad, f, minc, skip>>
Observe == /\ l <= Len(Rec) /\ Rec[l].ev = "observe" /\ ~skip
           /\ LET r == FilterStep(f, Rec[l].h, minc) IN
              IF r.pass = Rec[l].pass
              THEN f' = r.f /\ UNCHANGED <<bad, skip>>
              ELSE bad' = bad \cup {l} /\ skip' = TRUE /\ UNCHANGED f
           /\ l' = l + 1 /\ UNCHANGED minc
Next == Reset \/ Skip \/ Observe
Spec == Init /\ [][Next]_vars
AtEnd == l > Len(Rec) => PrintT(<<"TRACE-END", ToJson([n |-> Len(Rec), bad |-> SetToSortSeq(bad, <)])>>)
=============================================================================
