SPECIFICATION Spec
CONSTANTS
  Dev = {}
  MinFreq = 50
INVARIANT AtEnd
CHECK_DEADLOCK FALSE
