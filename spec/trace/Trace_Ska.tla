------------------------------ MODULE Trace_Ska ------------------------------
(***************************************************************************)
(* Trace specification for recorded sequences of ska commands on .skf      *)
(* files (C03, C06, C07, C08, C09, C10, C13, C14).  The specification      *)
(* carries its own `files` (Ska.tla); each event is one command: mutating  *)
(* commands must be matched by the corresponding Ska action and the        *)
(* recorded content of the output file must equal the specification's;     *)
(* observing commands must print what the declarative semantics gives for  *)
(* the specification's content of the file.  An episode starts with a      *)
(* `reset` event; after a rejected event the rest of the episode is        *)
(* skipped (its state is unknown) and validation resumes at the next one.  *)
(***************************************************************************)
EXTENDS Ska, Lo, TLC, Json, IOUtils

Rec == ndJsonDeserialize(IOEnv.TRACE)

VARIABLES l, bad, skip
vars == <<files, l, bad, skip>>

Has(r, f) == f \in DOMAIN r
SF == INSTANCE SkfFile
CL == INSTANCE Cli

\* recorded projection t (from `ska nk --full-info` or the library) equals table T
TableIs(t, T) ==
   /\ t.k = T.k /\ t.rc = T.rc /\ t.names = T.names
   /\ ToSet(t.rows) = T.rows /\ Len(t.rows) = Cardinality(T.rows)
   /\ t.ksize = Cardinality(T.rows)
   /\ t.nsk = NSampleKmers(T)

TableOfJson(t) == [k |-> t.k, rc |-> t.rc, names |-> t.names, rows |-> ToSet(t.rows)]
SetOf(s) == {s[i] : i \in 1..Len(s)}

OptsOf(c, n) == [thr |-> WeedThr(n, c.minf[1], c.minf[2]), filter |-> c.filter, ambigMissing |-> c.am,
                 ambigMask |-> c.mask, noGapOnly |-> c.nogap]

(* ---- every command as  [ok |-> recorded outcome is allowed, nf |-> files afterwards] ---- *)
Same == files
ContentIn(fs, f) == Logical(fs[f])

EvBuild(e) ==
   LET c == e.ctx IN
   IF BuildRefused(c.samples, c.k, c.rc) THEN [ok |-> ~e.ok, nf |-> Same]
   ELSE LET nf == BuildNext(c.out, c.samples, c.names, c.k, c.rc) IN
        [ok |-> e.ok /\ TableIs(e.table, ContentIn(nf, c.out)), nf |-> nf]

EvImport(e) ==
   LET nf == PutF(e.ctx.out, Fresh(TableOfJson(e.ctx.table))) IN
   [ok |-> TableIs(e.table, ContentIn(nf, e.ctx.out)), nf |-> nf]

EvMerge(e) ==
   LET c == e.ctx IN
   IF MergeOK(c.ins)
   THEN LET nf == MergeNext(c.ins, c.out)
            T1 == Content(c.ins[1]) IN
        [ok |-> /\ e.ok /\ TableIs(e.table, ContentIn(nf, c.out))
                \* C07: equal to ONE build over all source samples in argument order
                /\ (Has(c, "joint") =>
                      ContentIn(nf, c.out) = BuildTable(c.joint.samples, c.joint.names, T1.k, T1.rc)),
         nf |-> nf]
   ELSE [ok |-> ~e.ok /\ ~e.out_exists, nf |-> Same]       \* refused, and no output file written

EvDelete(e) ==
   LET c == e.ctx  D == SetOf(c.names) IN
   IF ~Present(c.file) THEN [ok |-> FALSE, nf |-> Same]
   ELSE IF DeleteRefused(Content(c.file), D)
   THEN [ok |-> ~e.ok /\ TableIs(e.table, Content(c.file)), nf |-> Same]      \* refused: file unchanged
   ELSE LET nf == DeleteNext(c.file, c.out, D)
            T == Content(c.file) IN
        [ok |-> /\ e.ok /\ TableIs(e.table, ContentIn(nf, c.out))
                \* C08: equal to a build of only the remaining samples
                /\ (Has(c, "rest") =>
                      ContentIn(nf, c.out) = BuildTable(c.rest.samples, c.rest.names, T.k, T.rc)),
         nf |-> nf]

EvWeed(e) ==
   LET c == e.ctx IN
   IF ~Present(c.file) THEN [ok |-> FALSE, nf |-> Same] ELSE
   LET T == Content(c.file)
       kms == IF c.useweed THEN WeedKms(c.weed, T.k, T.rc) ELSE {}
       o == OptsOf(c, NSamples(T))
       nf == WeedNext(c.file, c.out, c.useweed, kms, c.reverse, o)
       U == ContentIn(nf, c.out)
   IN [ok |-> /\ e.ok
              \* the documented effect on the logical table is what the code-shaped action gives ...
              /\ U = WeedDecl(T, c.useweed, kms, c.reverse, o)
              \* ... and what the tool wrote
              /\ TableIs(e.table, U)
              \* C13: names unchanged, surviving rows untouched (when no filter is active)
              /\ (~WeedFilterActive(o) => U.names = T.names /\ U.rows \subseteq T.rows),
       nf |-> nf]

(* ---- observing commands ---------------------------------------------------- *)
EvNk(e) == [ok |-> Present(e.ctx.file) /\ TableIs(e.table, Content(e.ctx.file)), nf |-> Same]

\* ska align: names in input order, equal lengths, bag of columns = declarative bag
AlignOK(e, T) ==
   LET c == e.ctx
       thr == AlignThr(NSamples(T), c.minf[1], c.minf[2])
       cols == ColumnsOf(e.seqs)
   IN /\ e.names = T.names
      /\ Len(e.seqs) = NSamples(T)
      /\ EqualLengths(e.seqs)
      /\ BagOfSeq(cols) = AlignBag(T, thr, c.filter, c.am, c.mask, c.nogap)
EvAlign(e) == [ok |-> Present(e.ctx.file) /\ e.ok /\ AlignOK(e, Content(e.ctx.file)), nf |-> Same]

\* ska distance: every unordered pair once, SNP count exact, mismatch proportion to 5 decimals
DistanceOK(e, T) ==
   LET c == e.ctx
       n == NSamples(T)
       thr == CeilThr(n, c.minf[1], c.minf[2])
       idx(nm) == CHOOSE i \in 1..n : T.names[i] = nm
   IN /\ Len(e.rows) = (n * (n - 1)) \div 2
      /\ \A i \in 1..n : \A j \in (i + 1)..n :
            \E r \in SetOf(e.rows) : (r[1] = T.names[i] /\ r[2] = T.names[j]) \/ (r[1] = T.names[j] /\ r[2] = T.names[i])
      /\ \A r \in SetOf(e.rows) :
            LET d == Dist(T, idx(r[1]), idx(r[2]), thr) IN
            /\ r[3] = 100 * d[1]
            /\ PropOK(r[4], d[2], d[3])
            /\ r[4] >= 0 /\ r[4] <= 100000
\* the same with --allow-ambiguous on a table with ambiguity codes: distances from the codes' weights
DistanceAmbOK(e, T) ==
   LET c == e.ctx
       n == NSamples(T)
       thr == CeilThr(n, c.minf[1], c.minf[2])
       idx(nm) == CHOOSE i \in 1..n : T.names[i] = nm
   IN /\ Len(e.rows) = (n * (n - 1)) \div 2
      /\ \A i \in 1..n : \A j \in (i + 1)..n :
            \E r \in SetOf(e.rows) : (r[1] = T.names[i] /\ r[2] = T.names[j]) \/ (r[1] = T.names[j] /\ r[2] = T.names[i])
      /\ \A r \in SetOf(e.rows) :
            LET d == DistAmb(T, idx(r[1]), idx(r[2]), thr) IN
            /\ Dist36OK(r[3], d[1])
            /\ PropOK(r[4], d[2], d[3])
            /\ r[4] >= 0 /\ r[4] <= 100000
EvDistance(e) ==
   LET T == Content(e.ctx.file) IN
   [ok |-> /\ Present(e.ctx.file) /\ e.ok
           /\ IF Unambiguous(T) THEN DistanceOK(e, T)
              ELSE /\ Assert(e.ctx.allow_ambig, "DRIVER-DRIFT: distance without --allow-ambiguous on a table with ambiguity codes")
                   /\ DistanceAmbOK(e, T),
    nf |-> Same]

\* C09: both loaders tried on the saved file: exactly the loader of the width the file was
\* written with (64 bits for k <= 31, else 128) accepts, and it returns the saved content
EvLoad(e) ==
   LET T == Content(e.ctx.file)
       w == SF!WidthFor(T.k) IN
   \* what every subcommand does: try 64 bits first, then 128 bits
   [ok |-> /\ Present(e.ctx.file)
           /\ (IF e.as64.ok THEN 64 ELSE IF e.as128.ok THEN 128 ELSE 0) = w
           /\ (w = 64 => TableIs(e.as64.table, T))
           /\ (w = 128 => TableIs(e.as128.table, T))
           /\ e.k_bits = w,
    nf |-> Same]

\* C03: `ska align --min-freq 1` on samples derived from an ancestor by isolated substitutions.
\* The specification checks that the recorded samples ARE that derivation, evaluates the
\* preconditions on them, and - when they hold - requires exactly one column per variable site.
EvSnpAlign(e) ==
   LET c == e.ctx
       pre == UniquePerPosition(c.samples, c.k) /\ Isolated(c.sites, c.samples, Half(c.k))
       \* sequence files given directly on the command line: the sample names are the file stems (Cli!NameOfPath)
       stems == IF "paths" \in DOMAIN e
                THEN Assert(Len(e.paths) = Len(c.names) /\ \A i \in 1..Len(e.paths) : CL!NameOfPath(e.paths[i]) = e.name_chars[i],
                            "DRIVER-DRIFT: expected sample names are not the stems of the files given")
                ELSE TRUE
   IN [ok |-> /\ stems
              /\ Assert(DerivationOK(c.ancestor, c.sites, c.alleles, c.samples), "DRIVER-DRIFT: samples are not the stated derivation")
              /\ Assert(pre = c.pre_strict, "DRIVER-DRIFT: precondition evaluated differently by driver and specification")
              /\ (pre => e.ok /\ SnpColumnsOK(e.names, e.seqs, c.names, c.alleles)),
       nf |-> Same]

\* C10: a command run on the file that went through the history and on a FRESH file with the same
\* logical content (imported just before) must print the same
EvTwin(e) == [ok |-> e.same, nf |-> Same]

Eval(e) ==
   CASE e.ev = "build" -> EvBuild(e)
     [] e.ev = "twin" -> EvTwin(e)
     [] e.ev = "snpalign" -> EvSnpAlign(e)
     [] e.ev = "load" -> EvLoad(e)
     [] e.ev = "import" -> EvImport(e)
     [] e.ev = "merge" -> EvMerge(e)
     [] e.ev = "delete" -> EvDelete(e)
     [] e.ev = "weed" -> EvWeed(e)
     [] e.ev = "nk" -> EvNk(e)
     [] e.ev = "align" -> EvAlign(e)
     [] e.ev = "distance" -> EvDistance(e)
     [] OTHER -> [ok |-> FALSE, nf |-> Same]

Init == files = [f \in {} |-> NoFile] /\ l = 1 /\ bad = {} /\ skip = FALSE

Reset == /\ l <= Len(Rec) /\ Rec[l].ev = "reset"
         /\ files' = [f \in {} |-> NoFile] /\ skip' = FALSE /\ l' = l + 1 /\ UNCHANGED bad
Skip == /\ l <= Len(Rec) /\ Rec[l].ev # "reset" /\ skip
        /\ l' = l + 1 /\ UNCHANGED <<files, bad, skip>>
Step == /\ l <= Len(Rec) /\ Rec[l].ev # "reset" /\ ~skip
        /\ LET r == Eval(Rec[l]) IN
           IF r.ok THEN files' = r.nf /\ UNCHANGED <<bad, skip>>
           ELSE bad' = bad \cup {l} /\ skip' = TRUE /\ UNCHANGED files
        /\ l' = l + 1
Next == Reset \/ Skip \/ Step
Spec == Init /\ [][Next]_vars

AtEnd == l > Len(Rec) => PrintT(<<"TRACE-END", ToJson([n |-> Len(Rec), bad |-> SetToSortSeq(bad, <)])>>)
=============================================================================
