------------------------------ MODULE Trace_Par ------------------------------
(***************************************************************************)
(* Trace specification for recorded runs of subcommands under different    *)
(* thread counts (C11).  Event `run`: the command, kind of input, thread   *)
(* count, exit status, the pool / split / leaf events the hooked binary    *)
(* logged (ordered by their per-process sequence number), and whether the  *)
(* normalised output equals that of the single-threaded run of the same    *)
(* episode.  Accepted iff the run succeeded, its pool events are exactly   *)
(* the program Par.tla gives for that command (so no abort is possible),   *)
(* the split it used is the specified one, and the result is unchanged.    *)
(***************************************************************************)
EXTENDS Par, TLC, Json, IOUtils, SequencesExt

Rec == ndJsonDeserialize(IOEnv.TRACE)

VARIABLES l, bad, drift
vars == <<l, bad, drift>>

Sel(evs, name) == SelectSeq(evs, LAMBDA x : x.ev = name)

\* The property (C11): a command that the design says cannot abort did not, and its result is that of the
\* single-threaded run.
RunOK(e) ==
   /\ Run(e.cmd, e.input, e.threads) = "ok"          \* the design says this command cannot abort
   /\ e.rc = 0                                       \* and it did not
   /\ e.same_as_t1                                   \* and the result is that of the single-threaded run

\* Conformance of the implementation-shaped model (Par.tla): the pool was configured exactly as the command's program
\* says, in that order, and building from sequence files used the specified split.  A difference here with RunOK true
\* means the model no longer describes the code (MODEL DRIFT); it is counted, it is not a violation.
RunConforms(e) ==
   LET prog == Program(e.cmd, e.input, e.threads)
       inits == Sel(e.hook, "pool.init")
       dones == Sel(e.hook, "pool.done")
       splits == Sel(e.hook, "par.split")
       leaves == Sel(e.hook, "par.leaf")
   IN /\ Len(inits) = Len(prog) /\ Len(dones) = Len(prog)
      /\ \A i \in 1..Len(prog) : inits[i].site = prog[i][2] /\ inits[i].prior_inits = i - 1
                                 /\ inits[i].threads = e.threads
      /\ (e.input = "seqs" /\ e.cmd \in {"build", "align", "map"} =>
            /\ Len(splits) = 1
            /\ splits[1].depth = Depth(e.nsamples, e.threads)
            /\ {<<leaves[i].offset, leaves[i].n>> : i \in 1..Len(leaves)}
                  = ToSet(Leaves(Depth(e.nsamples, e.threads), 0, e.nsamples))
            /\ Len(leaves) = Len(Leaves(Depth(e.nsamples, e.threads), 0, e.nsamples)))

Accept(e) == CASE e.ev = "run" -> RunOK(e) [] OTHER -> FALSE
Drifts(e) == e.ev = "run" /\ e.rc = 0 /\ ~RunConforms(e)

Init == l = 1 /\ bad = {} /\ drift = 0
Next == /\ l <= Len(Rec)
        /\ LET ok == Accept(Rec[l]) IN bad' = IF ok THEN bad ELSE bad \cup {l}
        /\ drift' = IF Drifts(Rec[l]) THEN drift + 1 ELSE drift
        /\ l' = l + 1
Spec == Init /\ [][Next]_vars
AtEnd == l > Len(Rec) => PrintT(<<"TRACE-END", ToJson([n |-> Len(Rec), bad |-> SetToSortSeq(bad, <), drift |-> drift])>>)
=============================================================================
