------------------------------ MODULE Trace_Par ------------------------------
(***************************************************************************)
(* Trace specification for recorded runs of subcommands under different    *)
(* thread counts (C11).  Event `run`: the command, kind of input, thread   *)
(* count, exit status, the pool / split / leaf events the hooked binary    *)
(* logged (ordered by their per-process sequence number), and whether the  *)
(* normalised output equals that of the single-threaded run of the same    *)
(* episode.  Accepted iff the run succeeded, its pool events are exactly   *)
(* the program Par.tla gives for that command (so no abort is possible),   *)
(* the split it used is the specified one, and the result is unchanged.    *)
(***************************************************************************)
EXTENDS Par, TLC, Json, IOUtils, SequencesExt

Rec == ndJsonDeserialize(IOEnv.TRACE)

VARIABLES l, bad
vars == <<l, bad>>

Sel(evs, name) == SelectSeq(evs, LAMBDA x : x.ev = name)

RunOK(e) ==
   LET prog == Program(e.cmd, e.input, e.threads)
       inits == Sel(e.hook, "pool.init")
       dones == Sel(e.hook, "pool.done")
       splits == Sel(e.hook, "par.split")
       leaves == Sel(e.hook, "par.leaf")
   IN /\ Run(e.cmd, e.input, e.threads) = "ok"          \* the design says this command cannot abort
      /\ e.rc = 0                                       \* and it did not
      \* the pool was configured exactly as the program says, in that order
      /\ Len(inits) = Len(prog) /\ Len(dones) = Len(prog)
      /\ \A i \in 1..Len(prog) : inits[i].site = prog[i][2] /\ inits[i].prior_inits = i - 1
                                 /\ inits[i].threads = e.threads
      \* building from sequence files used the specified split
      /\ (e.input = "seqs" /\ e.cmd \in {"build", "align", "map"} =>
            /\ Len(splits) = 1
            /\ splits[1].depth = Depth(e.nsamples, e.threads)
            /\ {<<leaves[i].offset, leaves[i].n>> : i \in 1..Len(leaves)}
                  = ToSet(Leaves(Depth(e.nsamples, e.threads), 0, e.nsamples))
            /\ Len(leaves) = Len(Leaves(Depth(e.nsamples, e.threads), 0, e.nsamples)))
      \* and the result is that of the single-threaded run
      /\ e.same_as_t1

Accept(e) == CASE e.ev = "run" -> RunOK(e) [] OTHER -> FALSE

Init == l = 1 /\ bad = {}
Next == /\ l <= Len(Rec)
        /\ LET ok == Accept(Rec[l]) IN bad' = IF ok THEN bad ELSE bad \cup {l}
        /\ l' = l + 1
Spec == Init /\ [][Next]_vars
AtEnd == l > Len(Rec) => PrintT(<<"TRACE-END", ToJson([n |-> Len(Rec), bad |-> SetToSortSeq(bad, <)])>>)
=============================================================================
