------------------------------ MODULE Trace_Cli ------------------------------
(***************************************************************************)
(* Trace specification for command-line behaviour outside the listed       *)
(* properties (Cli.tla): which argument values are accepted, that a        *)
(* refused command leaves no output file, and read sub-sampling.           *)
(***************************************************************************)
EXTENDS Cli, TLC, Json, IOUtils, SequencesExt

Rec == ndJsonDeserialize(IOEnv.TRACE)
VARIABLES l, bad
vars == <<l, bad>>

\* ska build -k K --threads T --proportion-reads P/1000 : accepted iff all arguments are valid
ArgsOK(e) ==
   LET valid == ValidK(e.k) /\ ValidThreads(e.threads) /\ ValidUnit(e.prop[1], e.prop[2]) IN
   /\ (e.rc = 0) = valid
   /\ (e.rc # 0 => ~e.out_exists)              \* refused: nothing written
\* ska align / weed / distance --min-freq F : accepted iff 0 <= F <= 1
FreqOK(e) == (e.rc = 0) = ValidUnit(e.freq[1], e.freq[2])
\* --proportion-reads: the records kept are those with index divisible by the step
SubOK(e) == e.kept = SubSampleRecords(e.records, e.step)

\* --min-count auto = --min-count <cutoff reported by ska cov>: same dictionary
AutoOK(e) == e.count_used = AutoMinCount(e.npaired, e.cov_cutoff) /\ e.same_table
Accept(e) == CASE e.ev = "cli.args" -> ArgsOK(e) [] e.ev = "cli.auto" -> AutoOK(e) [] e.ev = "cli.freq" -> FreqOK(e) [] e.ev = "cli.sub" -> SubOK(e) [] OTHER -> FALSE
Init == l = 1 /\ bad = {}
Next == /\ l <= Len(Rec)
        /\ LET ok == Accept(Rec[l]) IN bad' = IF ok THEN bad ELSE bad \cup {l}
        /\ l' = l + 1
Spec == Init /\ [][Next]_vars
AtEnd == l > Len(Rec) => PrintT(<<"TRACE-END", ToJson([n |-> Len(Rec), bad |-> SetToSortSeq(bad, <)])>>)
=============================================================================
