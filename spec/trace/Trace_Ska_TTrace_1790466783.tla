---- MODULE Trace_Ska_TTrace_1790466783 ----
EXTENDS Sequences, TLCExt, Toolbox, Naturals, TLC, Trace_Ska

_expression ==
    LET Trace_Ska_TEExpression == INSTANCE Trace_Ska_TEExpression
    IN Trace_Ska_TEExpression!expression
----

_trace ==
    LET Trace_Ska_TETrace == INSTANCE Trace_Ska_TETrace
    IN Trace_Ska_TETrace!trace
----

_inv ==
    ~(
        TLCGet("level") = Len(_TETrace)
        /\
        bad = ({})
        /\
        files = (<<>>)
        /\
        skip = (FALSE)
        /\
        l = (2)
    )
----

_init ==
    /\ l = _TETrace[1].l
    /\ skip = _TETrace[1].skip
    /\ bad = _TETrace[1].bad
    /\ files = _TETrace[1].files
----

_next ==
    /\ \E i,j \in DOMAIN _TETrace:
        /\ \/ /\ j = i + 1
              /\ i = TLCGet("level")
        /\ l  = _TETrace[i].l
        /\ l' = _TETrace[j].l
        /\ skip  = _TETrace[i].skip
        /\ skip' = _TETrace[j].skip
        /\ bad  = _TETrace[i].bad
        /\ bad' = _TETrace[j].bad
        /\ files  = _TETrace[i].files
        /\ files' = _TETrace[j].files

\* Uncomment the ASSUME below to write the states of the error trace
\* to the given file in Json format. Note that you can pass any tuple
\* to `JsonSerialize`. For example, a sub-sequence of _TETrace.
    \* ASSUME
    \*     LET J == INSTANCE Json
    \*         IN J!JsonSerialize("Trace_Ska_TTrace_1790466783.json", _TETrace)

=============================================================================

 Note that you can extract this module `Trace_Ska_TEExpression`
  to a dedicated file to reuse `expression` (the module in the 
  dedicated `Trace_Ska_TEExpression.tla` file takes precedence 
  over the module `Trace_Ska_TEExpression` below).

---- MODULE Trace_Ska_TEExpression ----
EXTENDS Sequences, TLCExt, Toolbox, Naturals, TLC, Trace_Ska

expression == 
    [
        \* To hide variables of the `Trace_Ska` spec from the error trace,
        \* remove the variables below.  The trace will be written in the order
        \* of the fields of this record.
        l |-> l
        ,skip |-> skip
        ,bad |-> bad
        ,files |-> files
        
        \* Put additional constant-, state-, and action-level expressions here:
        \* ,_stateNumber |-> _TEPosition
        \* ,_lUnchanged |-> l = l'
        
        \* Format the `l` variable as Json value.
        \* ,_lJson |->
        \*     LET J == INSTANCE Json
        \*     IN J!ToJson(l)
        
        \* Lastly, you may build expressions over arbitrary sets of states by
        \* leveraging the _TETrace operator.  For example, this is how to
        \* count the number of times a spec variable changed up to the current
        \* state in the trace.
        \* ,_lModCount |->
        \*     LET F[s \in DOMAIN _TETrace] ==
        \*         IF s = 1 THEN 0
        \*         ELSE IF _TETrace[s].l # _TETrace[s-1].l
        \*             THEN 1 + F[s-1] ELSE F[s-1]
        \*     IN F[_TEPosition - 1]
    ]

=============================================================================



Parsing and semantic processing can take forever if the trace below is long.
 In this case, it is advised to uncomment the module below to deserialize the
 trace from a generated binary file.

\*
\*---- MODULE Trace_Ska_TETrace ----
\*EXTENDS IOUtils, TLC, Trace_Ska
\*
\*trace == IODeserialize("Trace_Ska_TTrace_1790466783.bin", TRUE)
\*
\*=============================================================================
\*

---- MODULE Trace_Ska_TETrace ----
EXTENDS TLC, Trace_Ska

trace == 
    <<
    ([bad |-> {},files |-> <<>>,skip |-> FALSE,l |-> 1]),
    ([bad |-> {},files |-> <<>>,skip |-> FALSE,l |-> 2])
    >>
----


=============================================================================

---- CONFIG Trace_Ska_TTrace_1790466783 ----
CONSTANTS
    Dev = { }

INVARIANT
    _inv

CHECK_DEADLOCK
    \* CHECK_DEADLOCK off because of PROPERTY or INVARIANT above.
    FALSE

INIT
    _init

NEXT
    _next

CONSTANT
    _TETrace <- _trace

ALIAS
    _expression
=============================================================================
\* Generated on Sat Sep 26 23:53:05 UTC 2026