----------------------------- MODULE Trace_Reads -----------------------------
(***************************************************************************)
(* Trace specification for recorded builds from paired FASTQ files (C12).  *)
(* Event `reads`: the reads and quality strings of both files, the         *)
(* parameters, and the dictionary `ska build` produced (via `ska nk`).     *)
(* Accepted iff no k-mer that reached --min-count among windows passing    *)
(* the quality rule is missing, and everything else in the dictionary is   *)
(* at least something a passing window exhibits (only hash collisions of   *)
(* the counting filter can let such a k-mer in).  The number of such       *)
(* extra entries is accumulated and reported with the number of distinct   *)
(* entries seen, for the 0.1% bound.                                       *)
(***************************************************************************)
EXTENDS KmerFilter, TLC, Json, IOUtils

Rec == ndJsonDeserialize(IOEnv.TRACE)

VARIABLES l, bad, extras, seen
vars == <<l, bad, extras, seen>>

LoggedPairs(d) == UNION {{<<x[1], dg>> : dg \in IupacSet(x[2])} : x \in ToSet(d)}
UniqueKeys(d) == Cardinality({x[1] : x \in ToSet(d)}) = Len(d)

Eval(e) ==
   LET c == e.ctx
       reads == c.reads1 \o c.reads2
       quals == c.quals1 \o c.quals2
       want == ReadPairs(reads, quals, c.k, c.rc, c.rule, c.minq, c.minc)
       all == SeenPairs(reads, quals, c.k, c.rc, c.rule, c.minq)
   IN IF e.panic # "" THEN [ok |-> want = {}, extra |-> 0, seen |-> 0]      \* nothing reaches the count: refused
      ELSE LET got == LoggedPairs(e.dict) IN
           [ok |-> /\ UniqueKeys(e.dict)
                   /\ want \subseteq got              \* a k-mer that reaches the count is never lost
                   /\ got \subseteq all,              \* nothing fabricated
            extra |-> Cardinality(got \ want),        \* below-count k-mers that entered (collisions)
            seen |-> Cardinality(all)]

\* reads.stat: one LARGE sample (10^5 and more distinct k-mers, far beyond what ReadPairs can enumerate here): the driver
\* counts, independently of the code, how many distinct full k-mers (strands merged) the reads hold (distinct), how many
\* reach the count (reached), and classifies the entries of the built file: reached the count / seen below it / never
\* seen.  The clauses are the property's own: none that reached the count is lost, nothing is fabricated, and the
\* below-count entries (filter collisions) stay under 0.1 % of the distinct k-mers OF THIS SAMPLE.
EvalStat(e) ==
   [ok |-> /\ e.panic = ""
           /\ e.kept_reached = e.ctx.reached
           /\ e.kept_unseen = 0
           /\ e.kept_below * 1000 < e.ctx.distinct,
    extra |-> 0, seen |-> 0]

Init == l = 1 /\ bad = {} /\ extras = 0 /\ seen = 0
Next == /\ l <= Len(Rec)
        /\ LET r == IF Rec[l].ev = "reads.stat" THEN EvalStat(Rec[l]) ELSE Eval(Rec[l]) IN
           /\ bad' = IF r.ok THEN bad ELSE bad \cup {l}
           /\ extras' = extras + r.extra
           /\ seen' = seen + r.seen
        /\ l' = l + 1
Spec == Init /\ [][Next]_vars
AtEnd == l > Len(Rec) => PrintT(<<"TRACE-END", ToJson([n |-> Len(Rec), bad |-> SetToSortSeq(bad, <), extras |-> extras, seen |-> seen])>>)
=============================================================================
