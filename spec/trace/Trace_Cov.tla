------------------------------ MODULE Trace_Cov ------------------------------
(***************************************************************************)
(* Trace specification for recorded `ska cov` runs (C20).  Event `cov`:    *)
(* the reads of both files, k and strand mode; the table printed on        *)
(* stdout (count, number of k-mers, component label per row), the cutoff   *)
(* printed on stderr; the fitted parameters seen through the hook; and the *)
(* numeric oracle's observations: neg[i] (the log ratio of error to        *)
(* coverage component at count i is negative, computed from the stated     *)
(* mixture formula with the fitted parameters) and grad_ok (analytic       *)
(* gradient = finite difference of the stated likelihood).                 *)
(***************************************************************************)
EXTENDS Cov, TLC, Json, IOUtils

Rec == ndJsonDeserialize(IOEnv.TRACE)

VARIABLES l, bad
vars == <<l, bad>>

CovOK(e) ==
   LET c == e.ctx
       ri == RunInfoOfSet(WindowSet(c.reads1 \o c.reads2, c.k, c.rc))
       hist == HistOfRuns(ri.lens, 1000)
       want == Trunc(hist)
       n == Len(e.table)
   IN /\ e.panic = ""
      /\ Assert(ri.grouped, "TLC value order does not group equal k-mers")
      \* exact multiplicities: row i <-> multiplicity i, up to the last one shared by >= 50 k-mers
      /\ n = Len(want)
      /\ \A i \in 1..n : e.table[i][1] = i /\ e.table[i][2] = want[i]
      /\ e.counts = want                                   \* the histogram the fit used (hook)
      \* the cutoff rule and the labels, from the sign observations
      /\ Len(e.neg) >= n
      /\ e.cutoff = CutoffDecl(e.neg, n)
      /\ e.cutoff_fit = e.cutoff
      /\ \A i \in 1..n : e.table[i][3] = Label(i, e.cutoff)
      \* the likelihood gradient is the true gradient of the stated mixture
      /\ e.grad_ok

\* likelihood / gradient identity at parameter points on random histograms (no reads involved)
GradOK(e) == e.panic = "" /\ e.grad_ok /\ e.ll_ok
\* find_cutoff at a constructed parameter point: the smallest count with a negative sign, capped
CutoffOK(e) == e.panic = "" /\ e.cutoff = CutoffDecl(e.neg, e.max)

Accept(e) == CASE e.ev = "cov" -> CovOK(e)
               [] e.ev = "cov.grad" -> GradOK(e)
               [] e.ev = "cov.cutoff" -> CutoffOK(e)
               [] OTHER -> FALSE

Init == l = 1 /\ bad = {}
Next == /\ l <= Len(Rec)
        /\ LET ok == Accept(Rec[l]) IN bad' = IF ok THEN bad ELSE bad \cup {l}
        /\ l' = l + 1
Spec == Init /\ [][Next]_vars
AtEnd == l > Len(Rec) => PrintT(<<"TRACE-END", ToJson([n |-> Len(Rec), bad |-> SetToSortSeq(bad, <)])>>)
=============================================================================
