---- MODULE Trace_Kmer_TTrace_1790466388 ----
EXTENDS Sequences, TLCExt, Toolbox, Naturals, TLC, Trace_Kmer

_expression ==
    LET Trace_Kmer_TEExpression == INSTANCE Trace_Kmer_TEExpression
    IN Trace_Kmer_TEExpression!expression
----

_trace ==
    LET Trace_Kmer_TETrace == INSTANCE Trace_Kmer_TETrace
    IN Trace_Kmer_TETrace!trace
----

_inv ==
    ~(
        TLCGet("level") = Len(_TETrace)
        /\
        bad = ({})
        /\
        l = (5)
    )
----

_init ==
    /\ l = _TETrace[1].l
    /\ bad = _TETrace[1].bad
----

_next ==
    /\ \E i,j \in DOMAIN _TETrace:
        /\ \/ /\ j = i + 1
              /\ i = TLCGet("level")
        /\ l  = _TETrace[i].l
        /\ l' = _TETrace[j].l
        /\ bad  = _TETrace[i].bad
        /\ bad' = _TETrace[j].bad

\* Uncomment the ASSUME below to write the states of the error trace
\* to the given file in Json format. Note that you can pass any tuple
\* to `JsonSerialize`. For example, a sub-sequence of _TETrace.
    \* ASSUME
    \*     LET J == INSTANCE Json
    \*         IN J!JsonSerialize("Trace_Kmer_TTrace_1790466388.json", _TETrace)

=============================================================================

 Note that you can extract this module `Trace_Kmer_TEExpression`
  to a dedicated file to reuse `expression` (the module in the 
  dedicated `Trace_Kmer_TEExpression.tla` file takes precedence 
  over the module `Trace_Kmer_TEExpression` below).

---- MODULE Trace_Kmer_TEExpression ----
EXTENDS Sequences, TLCExt, Toolbox, Naturals, TLC, Trace_Kmer

expression == 
    [
        \* To hide variables of the `Trace_Kmer` spec from the error trace,
        \* remove the variables below.  The trace will be written in the order
        \* of the fields of this record.
        l |-> l
        ,bad |-> bad
        
        \* Put additional constant-, state-, and action-level expressions here:
        \* ,_stateNumber |-> _TEPosition
        \* ,_lUnchanged |-> l = l'
        
        \* Format the `l` variable as Json value.
        \* ,_lJson |->
        \*     LET J == INSTANCE Json
        \*     IN J!ToJson(l)
        
        \* Lastly, you may build expressions over arbitrary sets of states by
        \* leveraging the _TETrace operator.  For example, this is how to
        \* count the number of times a spec variable changed up to the current
        \* state in the trace.
        \* ,_lModCount |->
        \*     LET F[s \in DOMAIN _TETrace] ==
        \*         IF s = 1 THEN 0
        \*         ELSE IF _TETrace[s].l # _TETrace[s-1].l
        \*             THEN 1 + F[s-1] ELSE F[s-1]
        \*     IN F[_TEPosition - 1]
    ]

=============================================================================



Parsing and semantic processing can take forever if the trace below is long.
 In this case, it is advised to uncomment the module below to deserialize the
 trace from a generated binary file.

\*
\*---- MODULE Trace_Kmer_TETrace ----
\*EXTENDS IOUtils, TLC, Trace_Kmer
\*
\*trace == IODeserialize("Trace_Kmer_TTrace_1790466388.bin", TRUE)
\*
\*=============================================================================
\*

---- MODULE Trace_Kmer_TETrace ----
EXTENDS TLC, Trace_Kmer

trace == 
    <<
    ([bad |-> {},l |-> 1]),
    ([bad |-> {},l |-> 2]),
    ([bad |-> {},l |-> 3]),
    ([bad |-> {},l |-> 4]),
    ([bad |-> {},l |-> 5])
    >>
----


=============================================================================

---- CONFIG Trace_Kmer_TTrace_1790466388 ----
CONSTANTS
    Dev = { }

INVARIANT
    _inv

CHECK_DEADLOCK
    \* CHECK_DEADLOCK off because of PROPERTY or INVARIANT above.
    FALSE

INIT
    _init

NEXT
    _next

CONSTANT
    _TETrace <- _trace

ALIAS
    _expression
=============================================================================
\* Generated on Sat Sep 26 23:46:30 UTC 2026