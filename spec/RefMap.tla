------------------------------- MODULE RefMap -------------------------------
(***************************************************************************)
(* `ska map`: the reference index, the mapping of a table onto it, the     *)
(* pseudo-alignment and its VCF form (C04, C05), and the reference k-mer   *)
(* set used by `ska weed` (C13).                                           *)
(*                                                                         *)
(* DECLARATIVE layer: MappedAln (C04 as stated: middle base at a matched   *)
(* centre, upper-case reference base within (k-1)/2 of a matched centre on *)
(* the same contig, '-' elsewhere; masks) and VcfOK (C05).                 *)
(* IMPLEMENTATION-SHAPED layer: the incremental writer of                  *)
(* src/ska_ref/aln_writer.rs (state record with the code's scalar names),  *)
(* the repeat-coordinate loop of RefSka::new and the IdxCheck iterator.    *)
(* Coordinates are 0-based as in the code; contig c of the code is         *)
(* contigs[c+1].                                                           *)
(***************************************************************************)
EXTENDS Table

(***************************************************************************)
(* Reference index                                                         *)
(***************************************************************************)
\* entries of one contig in order: [km, mid, pos, chrom, isrc]
ContigIndex(contig, c, k, rc) ==
   LET obs == ObsList(contig, <<>>, k, rc, "none", 0) IN
   [i \in 1..Len(obs) |-> [km |-> obs[i].km, mid |-> obs[i].mid, pos |-> obs[i].pos, chrom |-> c, isrc |-> obs[i].isrc]]

RECURSIVE RefIndexFrom(_, _, _, _)
RefIndexFrom(contigs, c, k, rc) ==
   IF c > Len(contigs) THEN <<>>
   ELSE ContigIndex(contigs[c], c - 1, k, rc) \o RefIndexFrom(contigs, c + 1, k, rc)
RefIndex(contigs, k, rc) == RefIndexFrom(contigs, 1, k, rc)

ContigOffset(contigs, c) ==      \* absolute coordinate of position 0 of 0-based contig c
   LET RECURSIVE S(_) S(i) == IF i = 0 THEN 0 ELSE Len(contigs[i]) + S(i - 1) IN S(c)
TotalLen(contigs) == ContigOffset(contigs, Len(contigs))

\* split k-mers occurring more than once in the reference (arms only, any middle base)
RepeatKms(idx) ==
   {idx[i].km : i \in {x \in 1..Len(idx) : \E y \in 1..Len(idx) : y # x /\ idx[y].km = idx[x].km}}

\* DECL: absolute coordinates within (k-1)/2 of the centre of a repeated reference k-mer
RepeatCoords(contigs, idx, k) ==
   LET reps == RepeatKms(idx)  h == Half(k) IN
   UNION {{ContigOffset(contigs, idx[i].chrom) + q : q \in (idx[i].pos - h)..(idx[i].pos + h)} :
            i \in {x \in 1..Len(idx) : idx[x].km \in reps}}

\* IMPL: the loop in RefSka::new (chrom_offset, last_chrom, last_end).  Deviation
\* "RepeatOffsetSkip" = pinned tree: a single `if`, so contigs without k-mers are not
\* added to the offset.
RECURSIVE RepeatLoop(_, _, _, _, _, _, _, _)
RepeatLoop(contigs, idx, reps, h, i, lastChrom, lastEnd, acc) ==
   \* acc = <<chrom_offset, list of coordinates>>
   IF i > Len(idx) THEN acc[2]
   ELSE
   LET sk == idx[i]
       RECURSIVE Adv(_, _)
       Adv(lc, off) == IF sk.chrom > lc THEN Adv(lc + 1, off + Len(contigs[lc + 1])) ELSE <<lc, off>>
       adv == IF "RepeatOffsetSkip" \in Dev
              THEN (IF sk.chrom > lastChrom THEN <<sk.chrom, acc[1] + Len(contigs[lastChrom + 1])>> ELSE <<lastChrom, acc[1]>>)
              ELSE Adv(lastChrom, acc[1])
       off == adv[2]
   IN IF sk.km \in reps THEN
         LET start == sk.pos - h + off
             end == sk.pos + h + off
             from == IF start > lastEnd \/ start = 0 THEN start ELSE lastEnd + 1
             new == [j \in 1..(IF end + 1 > from THEN end + 1 - from ELSE 0) |-> from + j - 1]
         IN RepeatLoop(contigs, idx, reps, h, i + 1, sk.chrom, end, <<off, acc[2] \o new>>)
      ELSE RepeatLoop(contigs, idx, reps, h, i + 1, adv[1], lastEnd, <<off, acc[2]>>)
RepeatCoordsImpl(contigs, idx, k) ==
   RepeatLoop(contigs, idx, RepeatKms(idx), Half(k), 1, 0, 0, <<0, <<>>>>)

(***************************************************************************)
(* Mapping a table                                                         *)
(***************************************************************************)
\* centres matched by sample s: set of <<chrom, pos, byte>> (strand corrected middle base)
Centres(idx, T, s, ambigMask) ==
   LET kms == Kms(T) IN
   {<<idx[i].chrom, idx[i].pos,
      LET raw == RowAt(T, idx[i].km)[s]
          b == IF idx[i].isrc THEN CompCode(raw) ELSE raw
      IN IF ambigMask /\ IsAmbig(b) THEN NByte ELSE b>> :
      i \in {x \in 1..Len(idx) : idx[x].km \in kms /\ RowAt(T, idx[x].km)[s] # Gap}}

RefByte(b) == IF "RefCaseRaw" \in Dev THEN b ELSE ToUpper(b)    \* C04: the (upper-case) reference base

\* DECL: the sequence `ska map` writes for sample s
MappedAln(contigs, k, idx, T, s, ambigMask, repeatMask) ==
   LET cen == Centres(idx, T, s, ambigMask)
       h == Half(k)
       reps == IF repeatMask THEN RepeatCoords(contigs, idx, k) ELSE {}
       cenAt(c) == {m \in cen : m[1] = c}
       ContigSeq(c) ==
          LET cc == cenAt(c - 1)
              ps == {m[2] : m \in cc}
              off == ContigOffset(contigs, c - 1)
          IN [x \in 1..Len(contigs[c]) |->
                LET p == x - 1
                    v == IF p \in ps THEN (CHOOSE m \in cc : m[2] = p)[3]
                         ELSE IF \E q \in ps : q - h <= p /\ p <= q + h THEN RefByte(contigs[c][x])
                         ELSE Gap
                IN IF (off + p) \in reps /\ v # Gap THEN NByte ELSE v]
       RECURSIVE Cat(_)
       Cat(c) == IF c > Len(contigs) THEN <<>> ELSE ContigSeq(c) \o Cat(c + 1)
   IN Cat(1)

(***************************************************************************)
(* The incremental writer (aln_writer.rs).  State:                         *)
(*   np next_pos, cu curr_chrom, lm last_mapped, lw last_written,          *)
(*   of chrom_offset, out (tuple over the concatenated reference),         *)
(*   mids (buffered middle bases <<byte, absolute pos>>)                   *)
(***************************************************************************)
WNew(contigs, k) ==
   [np |-> Half(k), cu |-> 0, lm |-> 0, lw |-> 0, of |-> 0,
    out |-> [x \in 1..TotalLen(contigs) |-> Gap], mids |-> <<>>]

\* copy reference bases [start, end) of the current contig into out (0-based, half open).
\* The writer copies the bytes it is given verbatim; RefSka hands it the stored reference.
CopyRef(w, contigs, start, end) ==
   [w EXCEPT !.out = [x \in 1..Len(w.out) |->
                        IF x - 1 >= start + w.of /\ x - 1 < end + w.of
                        THEN contigs[w.cu + 1][x - w.of] ELSE w.out[x]]]

WFillFwd(w, contigs, h, maximum) ==
   IF w.lw > 0 THEN
      LET overhang == Monus(w.lm + h, w.lw)
          start == w.lw + 1
          end == Min2(start + overhang, maximum)
      IN IF end > start THEN [CopyRef(w, contigs, start, end) EXCEPT !.lw = end] ELSE w
   ELSE w

WFillContig(w, contigs, h) ==
   LET len == Len(contigs[w.cu + 1])
       v == WFillFwd(w, contigs, h, len)
   IN [v EXCEPT !.of = v.of + len, !.cu = v.cu + 1, !.np = h]

RECURSIVE WFillTo(_, _, _, _)
WFillTo(w, contigs, h, chrom) == IF chrom > w.cu THEN WFillTo(WFillContig(w, contigs, h), contigs, h, chrom) ELSE w

\* write_split_kmer(mapped_pos, mapped_chrom, base)
WWrite(w0, contigs, k, pos, chrom, base, maskAmbig) ==
   LET h == Half(k)
       w1 == WFillTo(w0, contigs, h, chrom)
       b == IF maskAmbig /\ IsAmbig(base) THEN NByte ELSE base
       w == [w1 EXCEPT !.mids = Append(w1.mids, <<b, pos + w1.of>>)]
   IN IF pos < w.np THEN [w EXCEPT !.lm = pos]
      ELSE LET u == IF pos > w.np THEN WFillFwd(w, contigs, h, pos - h) ELSE w
               v == CopyRef(u, contigs, pos - h, pos)
           IN [v EXCEPT !.np = pos + h + 1, !.lm = pos, !.lw = pos]

\* finalise: fill remaining contigs, write the buffered middle bases, then the repeat mask
WFinalise(w0, contigs, k, repeats) ==
   LET h == Half(k)
       w == WFillTo(w0, contigs, h, Len(contigs))
       withMids == [x \in 1..Len(w.out) |->
                      LET hits == {i \in 1..Len(w.mids) : w.mids[i][2] = x - 1} IN
                      IF hits = {} THEN w.out[x] ELSE w.mids[Max(hits)][1]]
   IN [w EXCEPT !.out = [x \in 1..Len(w.out) |->
                           IF (x - 1) \in repeats /\ withMids[x] # Gap THEN NByte ELSE withMids[x]]]

RECURSIVE WRun(_, _, _, _, _, _)
WRun(w, contigs, k, writes, i, mask) ==
   IF i > Len(writes) THEN w
   ELSE WRun(WWrite(w, contigs, k, writes[i][1], writes[i][2], writes[i][3], mask), contigs, k, writes, i + 1, mask)

\* IMPL, composed: what `ska map` does for one sample - the reference k-mers in index order, those the sample has
\* are written (strand-corrected base) through the incremental writer, then finalise with the coordinates of the
\* repeat loop.  MC_MapCompose checks it against the declarative MappedAln.
MapImpl(contigs, k, idx, T, s, ambigMask, repeatMask) ==
   LET kms == Kms(T)
       hit == SelectSeq(idx, LAMBDA e : e.km \in kms /\ RowAt(T, e.km)[s] # Gap)
       writes == [i \in 1..Len(hit) |->
                    LET raw == RowAt(T, hit[i].km)[s] IN
                    <<hit[i].pos, hit[i].chrom, IF hit[i].isrc THEN CompCode(raw) ELSE raw>>]
       repsSeq == IF repeatMask THEN RepeatCoordsImpl(contigs, idx, k) ELSE <<>>
       reps == {repsSeq[i] : i \in 1..Len(repsSeq)}
   IN WFinalise(WRun(WNew(contigs, k), contigs, k, writes, 1, ambigMask), contigs, k, reps).out

WScalars(w) == <<w.np, w.cu, w.lm, w.lw, w.of>>

\* DECL for a bare writer run: what the centres written so far must give after finalise
ExpectOut(contigs, k, writes, maskAmbig, repeats) ==
   \* writes: sequence of <<pos, chrom, base>>
   LET h == Half(k)
       ws == {writes[i] : i \in 1..Len(writes)}
       ContigSeq(c) ==
          LET cc == {m \in ws : m[2] = c - 1}
              ps == {m[1] : m \in cc}
              off == ContigOffset(contigs, c - 1)
          IN [x \in 1..Len(contigs[c]) |->
                LET p == x - 1
                    v == IF p \in ps THEN LET b == (CHOOSE m \in cc : m[1] = p)[3] IN
                                          IF maskAmbig /\ IsAmbig(b) THEN NByte ELSE b
                         ELSE IF \E q \in ps : q - h <= p /\ p <= q + h THEN contigs[c][x]
                         ELSE Gap
                IN IF (off + p) \in repeats /\ v # Gap THEN NByte ELSE v]
       RECURSIVE Cat(_)
       Cat(c) == IF c > Len(contigs) THEN <<>> ELSE ContigSeq(c) \o Cat(c + 1)
   IN Cat(1)

(***************************************************************************)
(* IdxCheck: absolute index -> (contig, position), as iterated by the code *)
(***************************************************************************)
\* DECL
CoordOf(lens, a) ==     \* lens: tuple of contig lengths; a: absolute 0-based
   LET RECURSIVE Find(_, _)
       Find(c, acc) == IF a < acc + lens[c] THEN <<c - 1, a - acc>> ELSE Find(c + 1, acc + lens[c])
   IN Find(1, 0)
\* IMPL: IdxCheckIter::next with state <<current_chr, idx>>; end_coor = cumulative ends
EndCoor(lens) == LET RECURSIVE E(_) E(i) == IF i = 0 THEN 0 ELSE lens[i] + E(i - 1) IN [i \in 1..Len(lens) |-> E(i)]
\* Deviation "IdxSingleStep" = pinned tree: a single `if` advances at most one contig per call,
\* so the position after a zero-length contig is attributed to the empty contig.
IdxNext(lens, st) ==
   LET ends == EndCoor(lens)
       RECURSIVE Adv(_)
       Adv(c) == IF c < Len(lens) /\ st[2] >= ends[c + 1] THEN Adv(c + 1) ELSE c
       chr == IF "IdxSingleStep" \in Dev
              THEN (IF st[2] >= ends[st[1] + 1] THEN st[1] + 1 ELSE st[1])
              ELSE Adv(st[1])
   IN IF chr < Len(lens)
      THEN [some |-> TRUE, item |-> <<chr, IF chr > 0 THEN st[2] - ends[chr] ELSE st[2]>>, st |-> <<chr, st[2] + 1>>]
      ELSE [some |-> FALSE, item |-> <<0, 0>>, st |-> <<chr, st[2]>>]

(***************************************************************************)
(* VCF (C05)                                                               *)
(***************************************************************************)
\* aln: tuple of per-sample sequences over the concatenated reference.
\* vcf: [contigs (names), samples (names), records: tuple of [chrom (name), pos (1-based), ref (byte), alts (tuple of bytes), gts (tuple of ints, -1 = '.')]]
VcfRefByte(b) == IF ToUpper(b) \in {65, 67, 71, 84} THEN ToUpper(b) ELSE NByte
DecodeGt(rec, g) == IF g = -1 THEN Gap ELSE IF g = 0 THEN rec.ref ELSE rec.alts[g]
ExpectChar(ch) == IF ch = Gap THEN Gap ELSE IF ch \in {65, 67, 71, 84} THEN ch ELSE NByte

VcfOK(contigs, names, aln, sampleNames, vcf) ==
   LET lens == [c \in 1..Len(contigs) |-> Len(contigs[c])]
       total == TotalLen(contigs)
       refAt(a) == LET cp == CoordOf(lens, a) IN ToUpper(contigs[cp[1] + 1][cp[2] + 1])
       differs(a) == \E s \in 1..Len(aln) : aln[s][a + 1] # refAt(a)
       recKey(r) == <<r.chrom, r.pos>>
       chromIdx(nm) == CHOOSE c \in 1..Len(names) : names[c] = nm
   IN /\ vcf.contigs = names /\ vcf.samples = sampleNames
      \* a record exactly where some sample differs from the upper-case reference base
      /\ {recKey(vcf.records[i]) : i \in 1..Len(vcf.records)}
            = {<<names[CoordOf(lens, a)[1] + 1], CoordOf(lens, a)[2] + 1>> : a \in {x \in 0..(total - 1) : differs(x)}}
      /\ Cardinality({recKey(vcf.records[i]) : i \in 1..Len(vcf.records)}) = Len(vcf.records)
      \* REF, and genotypes decoding to the aligned characters
      /\ \A i \in 1..Len(vcf.records) :
            LET r == vcf.records[i]
                c == chromIdx(r.chrom)
                a == ContigOffset(contigs, c - 1) + r.pos - 1
            IN /\ r.ref = VcfRefByte(contigs[c][r.pos])
               /\ Len(r.gts) = Len(aln)
               /\ \A s \in 1..Len(aln) :
                     /\ r.gts[s] >= -1 /\ r.gts[s] <= Len(r.alts)
                     /\ DecodeGt(r, r.gts[s]) = ExpectChar(aln[s][a + 1])
=============================================================================
