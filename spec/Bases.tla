------------------------------- MODULE Bases -------------------------------
(***************************************************************************)
(* Alphabet layer of the SKA specification.                                *)
(*                                                                         *)
(* Sequences are tuples of BYTES (ASCII integers) exactly as the tool      *)
(* reads them, so the specification can talk about letter case, N/n and    *)
(* IUPAC letters.  A base is also a 2-bit DIGIT in the implementation's    *)
(* order A=0, C=1, T=2, G=3; complementing a digit adds 2 modulo 4.        *)
(* An ambiguity code is the byte of an IUPAC letter and denotes a SET of   *)
(* digits; the whole ambiguity algebra (C15) is defined on those sets.     *)
(***************************************************************************)
EXTENDS Naturals, Sequences, FiniteSets

bA == 65  bC == 67  bG == 71  bT == 84  bU == 85  bN == 78  bGap == 45
bR == 82  bY == 89  bS == 83  bW == 87  bK == 75  bM == 77
bB == 66  bD == 68  bH == 72  bV == 86

Digits == 0..3

IsLower(b) == b >= 97 /\ b <= 122
ToUpper(b) == IF IsLower(b) THEN b - 32 ELSE b
ToLower(b) == IF b >= 65 /\ b <= 90 THEN b + 32 ELSE b

\* The input alphabet of C01: A/C/G/T in either case are bases; N/n break windows.
BaseBytes == {65, 67, 71, 84, 97, 99, 103, 116}
IsBase(b) == b \in BaseBytes

\* digit of a base byte (either case)
Enc(b) == LET u == ToUpper(b) IN
          IF u = 65 THEN 0 ELSE IF u = 67 THEN 1 ELSE IF u = 84 THEN 2 ELSE 3
\* upper-case byte of a digit
Dec(d) == IF d = 0 THEN 65 ELSE IF d = 1 THEN 67 ELSE IF d = 2 THEN 84 ELSE 71
CompD(d) == (d + 2) % 4

\* sequence helpers ---------------------------------------------------------
EncSeq(s) == [i \in 1..Len(s) |-> Enc(s[i])]
DecSeq(d) == [i \in 1..Len(d) |-> Dec(d[i])]
RevComp(d) == LET n == Len(d) IN [i \in 1..n |-> CompD(d[n + 1 - i])]   \* on digit tuples
\* on byte tuples: complements A/C/G/T keeping the letter case, leaves other bytes (N) alone
CompByte(x) == IF ~IsBase(x) THEN x
               ELSE IF IsLower(x) THEN ToLower(Dec(CompD(Enc(x)))) ELSE Dec(CompD(Enc(x)))
RevCompBytes(s) == LET n == Len(s) IN [i \in 1..n |-> CompByte(s[n + 1 - i])]

\* strict lexicographic order on equal-length digit tuples = numeric order of the
\* implementation's packed integers
LexLess(a, b) == \E i \in 1..Len(a) : a[i] < b[i] /\ \A j \in 1..(i - 1) : a[j] = b[j]

Min2(a, b) == IF a <= b THEN a ELSE b
Max2(a, b) == IF a >= b THEN a ELSE b
Monus(a, b) == IF a >= b THEN a - b ELSE 0
CeilDiv(a, b) == (a + b - 1) \div b

(***************************************************************************)
(* Ambiguity algebra (C15).                                                *)
(***************************************************************************)
\* set of digits denoted by an (upper-case) IUPAC letter; {} for anything else
IupacSet(c) ==
   IF c = 65 THEN {0} ELSE IF c = 67 THEN {1} ELSE IF c = 84 THEN {2} ELSE IF c = 71 THEN {3}
   ELSE IF c = 82 THEN {0, 3}      \* R = A|G
   ELSE IF c = 89 THEN {1, 2}      \* Y = C|T
   ELSE IF c = 83 THEN {1, 3}      \* S = C|G
   ELSE IF c = 87 THEN {0, 2}      \* W = A|T
   ELSE IF c = 75 THEN {2, 3}      \* K = G|T
   ELSE IF c = 77 THEN {0, 1}      \* M = A|C
   ELSE IF c = 66 THEN {1, 2, 3}   \* B = not A
   ELSE IF c = 68 THEN {0, 2, 3}   \* D = not C
   ELSE IF c = 72 THEN {0, 1, 2}   \* H = not G
   ELSE IF c = 86 THEN {0, 1, 3}   \* V = not T
   ELSE IF c = 78 THEN {0, 1, 2, 3}
   ELSE {}

IupacLetters == {65, 67, 71, 84, 82, 89, 83, 87, 75, 77, 66, 68, 72, 86, 78}
IsIupac(b) == ToUpper(b) \in IupacLetters

\* the letter denoting a non-empty set of digits (definition)
IupacCodeDef(S) == CHOOSE c \in IupacLetters : IupacSet(c) = S
\* the same through a 15-entry table indexed by the set's bit mask (A=1, C=2, T=4, G=8);
\* MC_Iupac checks IupacCode = IupacCodeDef on all 15 non-empty sets.  Used because TLC
\* evaluates it ~15x faster on recorded executions.
CodeByMask == <<65, 67, 77, 84, 87, 89, 72, 71, 82, 83, 86, 75, 68, 66, 78>>
MaskOf(S) == (IF 0 \in S THEN 1 ELSE 0) + (IF 1 \in S THEN 2 ELSE 0)
           + (IF 2 \in S THEN 4 ELSE 0) + (IF 3 \in S THEN 8 ELSE 0)
IupacCode(S) == CodeByMask[MaskOf(S)]

\* adding base digit d to existing code byte c (either case): code of the enlarged set;
\* 0 ("no code") when c is not an IUPAC letter
AddBase(c, d) == IF IsIupac(c) THEN IupacCode(IupacSet(ToUpper(c)) \cup {d}) ELSE 0

\* complement of a code byte: code of the complemented set, '-' for '-' and for any
\* byte that is not an IUPAC letter
CompCode(c) == IF IsIupac(c) THEN IupacCode({CompD(x) : x \in IupacSet(ToUpper(c))}) ELSE 45

\* ambiguous = IUPAC letter other than A/C/G/T (U is not ambiguous, gap is not)
IsAmbig(b) == IsIupac(b) /\ ToUpper(b) \notin {65, 67, 71, 84}

\* Distance weights scaled by 6, indexed by digit+1: uniform over the code's set,
\* none for N (unknown) and none for symbols that are not codes; U counts as T.
Weights6(b) == LET u == ToUpper(b)
                   S == IF u = 85 THEN {2} ELSE IF u = 78 THEN {} ELSE IupacSet(u) IN
               [i \in 1..4 |-> IF (i - 1) \in S THEN 6 \div Cardinality(S) ELSE 0]

=============================================================================
