-------------------------------- MODULE Cov --------------------------------
(***************************************************************************)
(* `ska cov` (C20): the multiplicity histogram of split k-mers over a pair *)
(* of read files, its truncation, the integer cutoff search and the        *)
(* labels.  The real-valued parts (on which side of zero the log ratio of  *)
(* the two mixture components falls; the gradient identity) cannot be      *)
(* expressed in TLA+: they enter as OBSERVATIONS (a sign per count, a      *)
(* boolean) computed by a numeric oracle from the stated mixture formula,  *)
(* and the specification decides everything combinatorial around them.     *)
(***************************************************************************)
EXTENDS SplitKmer, FiniteSetsExt

CONSTANT MinFreq      \* a multiplicity is tabulated up to the last one shared by >= MinFreq k-mers (50)

\* canonical arms of every window of every read, as a LIST (with repetitions)
RECURSIVE WindowKms(_, _, _, _)
WindowKms(reads, k, rc, r) ==
   IF r > Len(reads) THEN <<>>
   ELSE LET obs == ObsList(reads[r], <<>>, k, rc, "none", 0) IN
        [i \in 1..Len(obs) |-> obs[i].km] \o WindowKms(reads, k, rc, r + 1)

\* multiplicities: DECLARATIVE definition (quadratic; used on small scopes)
Multiplicity(L) == [x \in {L[i] : i \in 1..Len(L)} |-> Cardinality({i \in 1..Len(L) : L[i] = x})]
\* counts[c] = number of distinct k-mers with multiplicity c
HistOfMult(mult, maxC) == [c \in 1..maxC |-> Cardinality({x \in DOMAIN mult : mult[x] = c})]

\* The same through run lengths of the sorted list (n log n; used on recorded executions).
\* S = {<<km, i>>} enumerates in TLC's value order, which groups equal k-mers; the grouping is
\* CHECKED (GroupedOK) rather than assumed.
\* S is a set of pairs <<km, tag>> with one pair per window (tags distinct per k-mer occurrence)
RunInfoOfSet(S) ==
   LET seq == SetToSeq(S)
       n == Len(seq)
       starts == {i \in 1..n : IF i = 1 THEN TRUE ELSE seq[i][1] # seq[i - 1][1]}
       ss == SetToSortSeq(starts, <)
       lens == [j \in 1..Len(ss) |-> (IF j = Len(ss) THEN n + 1 ELSE ss[j + 1]) - ss[j]]
   IN [lens |-> lens, grouped |-> Cardinality({seq[s][1] : s \in starts}) = Cardinality(starts)]
RunInfo(L) == RunInfoOfSet({<<L[i], i>> : i \in 1..Len(L)})
\* all windows of all reads as such a set, without building one long list (reads can be many)
WindowSet(reads, k, rc) ==
   UNION {LET obs == ObsList(reads[r], <<>>, k, rc, "none", 0) IN {<<obs[i].km, <<r, i>>>> : i \in 1..Len(obs)} :
          r \in 1..Len(reads)}
HistOfRuns(lens, maxC) == [c \in 1..maxC |-> Cardinality({j \in 1..Len(lens) : lens[j] = c})]

\* truncation: keep multiplicities 1..last c with counts[c] >= MinFreq (empty if none)
TruncLen(counts) == LET ok == {c \in 1..Len(counts) : counts[c] >= MinFreq} IN IF ok = {} THEN 0 ELSE Max(ok)
Trunc(counts) == SubSeq(counts, 1, TruncLen(counts))

\* ---- cutoff: implementation-shaped loop over sign observations ----------------
\* neg[i] = TRUE iff the error component is outweighed at count i (a(i) - b(i) < 0)
\* find_cutoff: cutoff := 1; while cutoff < max { if neg[cutoff] break; cutoff += 1 }
RECURSIVE CutoffLoop(_, _, _)
CutoffLoop(neg, max, cutoff) ==
   IF cutoff < max THEN (IF neg[cutoff] THEN cutoff ELSE CutoffLoop(neg, max, cutoff + 1)) ELSE cutoff
\* DECLARATIVE: the smallest count at which the coverage component outweighs the error
\* component, capped at the table length (and never below 1)
CutoffDecl(neg, max) ==
   LET cand == {i \in 1..(max - 1) : neg[i]} IN
   IF cand = {} THEN Max2(max, 1) ELSE Min(cand)

Label(i, cutoff) == IF i < cutoff THEN "Error" ELSE "Coverage"
=============================================================================
