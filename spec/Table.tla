------------------------------- MODULE Table -------------------------------
(***************************************************************************)
(* The sample x split-k-mer table and the documented effect of every       *)
(* operation on it (C03, C06, C07, C08, C10, C13, C14).                    *)
(*                                                                         *)
(* A table is a record [k, rc, names, rows]; names is a tuple of strings;  *)
(* rows is a SET of pairs <<km, bases>> with distinct km, km a tuple of    *)
(* k-1 digits and bases a tuple of bytes, one per sample (45 = '-').       *)
(*                                                                         *)
(* DECLARATIVE layer: Build / Merge / Delete / Weed / KeepRow / AlignCols  *)
(* / Dist.  IMPLEMENTATION-SHAPED layer: rows carry the cached count       *)
(* column (`cnt`) that src/merge_ska_array.rs serialises, and FilterImpl / *)
(* DistanceImpl follow the code's control flow.                            *)
(***************************************************************************)
EXTENDS SplitKmer, FiniteSetsExt

Gap == 45
NByte == 78

(***************************************************************************)
(* Building                                                                *)
(***************************************************************************)
\* P: tuple (one entry per sample) of sets of pairs <<km, digit>>
RowOf(km, P) == [i \in 1..Len(P) |->
                   LET S == {d \in Digits : <<km, d>> \in P[i]} IN
                   IF S = {} THEN Gap ELSE IupacCode(S)]
KmsOf(P) == UNION {{p[1] : p \in P[i]} : i \in 1..Len(P)}
RowsOfPairs(P) == {<<km, RowOf(km, P)>> : km \in KmsOf(P)}

\* samples: tuple of samples, each a tuple of records (byte tuples)
SamplePairs(samples, k, rc) == [i \in 1..Len(samples) |-> ObsPairs(AllFaObs(samples[i], k, rc))]
BuildTable(samples, names, k, rc) ==
   [k |-> k, rc |-> rc, names |-> names, rows |-> RowsOfPairs(SamplePairs(samples, k, rc))]

\* `ska build` refuses (no output) when some sample has no valid window at this k
BuildRefused(samples, k, rc) == \E i \in 1..Len(samples) : AllFaObs(samples[i], k, rc) = {}

NSamples(T) == Len(T.names)
AllGap(n) == [i \in 1..n |-> Gap]
IsAllGap(bases) == \A i \in 1..Len(bases) : bases[i] = Gap
Kms(T) == {r[1] : r \in T.rows}
RowAt(T, km) == (CHOOSE r \in T.rows : r[1] = km)[2]

WellFormed(T) ==
   /\ Cardinality(Kms(T)) = Cardinality(T.rows)                    \* one row per k-mer
   /\ \A r \in T.rows : Len(r[1]) = T.k - 1 /\ Len(r[2]) = NSamples(T) /\ ~IsAllGap(r[2])

\* number of k-mers per sample (ska nk: sample_kmers)
NSampleKmers(T) == [i \in 1..NSamples(T) |-> Cardinality({r \in T.rows : r[2][i] # Gap})]

(***************************************************************************)
(* Merge (C07), Delete (C08), Weed (C13)                                   *)
(***************************************************************************)
Compatible(T1, T2) == T1.k = T2.k /\ T1.rc = T2.rc

Merge2(T1, T2) ==
   LET n1 == NSamples(T1)  n2 == NSamples(T2)
       k1 == Kms(T1)  k2 == Kms(T2)
   IN [k |-> T1.k, rc |-> T1.rc, names |-> T1.names \o T2.names,
       rows |-> {<<r[1], r[2] \o (IF r[1] \in k2 THEN RowAt(T2, r[1]) ELSE AllGap(n2))>> : r \in T1.rows}
                \cup {<<r[1], AllGap(n1) \o r[2]>> : r \in {x \in T2.rows : x[1] \notin k1}}]

RECURSIVE MergeAll(_)
MergeAll(Ts) == IF Len(Ts) = 1 THEN Ts[1] ELSE MergeAll(<<Merge2(Ts[1], Ts[2])>> \o SubSeq(Ts, 3, Len(Ts)))

\* keep the columns whose index is in `keep` (a set), order preserved
KeepIdx(T, keep) == SetToSortSeq(keep, <)
DeleteCols(T, delNames) ==
   LET keepIdx == SetToSortSeq({i \in 1..NSamples(T) : T.names[i] \notin delNames}, <)
       proj(bases) == [j \in 1..Len(keepIdx) |-> bases[keepIdx[j]]]
   IN [k |-> T.k, rc |-> T.rc, names |-> proj(T.names),
       rows |-> {r2 \in {<<r[1], proj(r[2])>> : r \in T.rows} : ~IsAllGap(r2[2])}]
DeleteRefused(T, delNames) ==
   \/ delNames = {} \/ Cardinality(delNames) >= NSamples(T)
   \/ \E nm \in delNames : \A i \in 1..NSamples(T) : T.names[i] # nm

\* the k-mers of a weed file: every split k-mer of any record, canonical per the file's rc
WeedKms(recs, k, rc) == {o.km : o \in AllFaObs(recs, k, rc)}
Weed(T, kms, reverse) ==
   [T EXCEPT !.rows = {r \in T.rows : IF reverse THEN r[1] \in kms ELSE r[1] \notin kms}]

(***************************************************************************)
(* Filters (C06)                                                           *)
(***************************************************************************)
Filters == {"no-filter", "no-const", "no-ambig", "no-ambig-or-const"}

RowCount(bases, ambigMissing) ==
   Cardinality({i \in 1..Len(bases) : bases[i] # Gap /\ (~ambigMissing \/ ~IsAmbig(bases[i]))})

Symbols(bases) == {bases[i] : i \in 1..Len(bases)}
PlainSymbols == {65, 67, 71, 84, Gap}

KeepSite(bases, filter, noGapOnly) ==
   LET syms == Symbols(bases) IN
   CASE filter = "no-filter" -> TRUE
     [] filter = "no-const"  -> Cardinality(IF noGapOnly THEN syms \ {Gap} ELSE syms) >= 2
     [] filter = "no-ambig"  -> \A x \in syms : ~IsAmbig(x)
     [] filter = "no-ambig-or-const" ->
           Cardinality((syms \cap PlainSymbols) \ (IF noGapOnly THEN {Gap} ELSE {})) >= 2

\* threshold of `ska align` / `ska distance`: max(1, ceil(f * n)), f = num/den exactly
CeilThr(n, num, den) == CeilDiv(n * num, den)
AlignThr(n, num, den) == Max2(1, CeilThr(n, num, den))
\* threshold of `ska weed`'s filter: floor(f * n)
WeedThr(n, num, den) == (n * num) \div den

KeepRow(bases, thr, filter, ambigMissing, noGapOnly) ==
   /\ RowCount(bases, ambigMissing) >= thr
   /\ KeepSite(bases, filter, noGapOnly)

MaskRow(bases, ambigMask) == IF ambigMask THEN [i \in 1..Len(bases) |-> IF IsAmbig(bases[i]) THEN NByte ELSE bases[i]]
                             ELSE bases

\* The table after filtering (k-mer list kept in step with the matrix)
FilterTable(T, thr, filter, ambigMissing, ambigMask, noGapOnly) ==
   [T EXCEPT !.rows = {<<r[1], MaskRow(r[2], ambigMask)>> :
                          r \in {x \in T.rows : KeepRow(x[2], Max2(thr, 1), filter, ambigMissing, noGapOnly)}}]

\* Bag (multiset) of the columns `ska align` must print, as a function column |-> multiplicity
BagOfSeq(s) == LET S == {s[i] : i \in 1..Len(s)} IN [x \in S |-> Cardinality({i \in 1..Len(s) : s[i] = x})]
AlignBag(T, thr, filter, ambigMissing, ambigMask, noGapOnly) ==
   LET kept == FilterTable(T, thr, filter, ambigMissing, ambigMask, noGapOnly).rows
       cols == {r[2] : r \in kept}
   IN [c \in cols |-> Cardinality({r \in kept : r[2] = c})]

\* columns of an alignment given as a tuple of equal-length sequences (one per sample)
ColumnsOf(seqs) == IF Len(seqs) = 0 THEN <<>> ELSE
   [j \in 1..Len(seqs[1]) |-> [i \in 1..Len(seqs) |-> seqs[i][j]]]
EqualLengths(seqs) == \A i \in 1..Len(seqs) : Len(seqs[i]) = Len(seqs[1])

(***************************************************************************)
(* Implementation-shaped filter: rows carry the cached count `cnt` that    *)
(* the code reads instead of recounting.  An ITable has                    *)
(*   irows : set of records [km, bases, cnt]                               *)
(***************************************************************************)
Fresh(T) == [k |-> T.k, rc |-> T.rc, names |-> T.names,
             irows |-> {[km |-> r[1], bases |-> r[2], cnt |-> RowCount(r[2], FALSE)] : r \in T.rows}]
Logical(I) == [k |-> I.k, rc |-> I.rc, names |-> I.names, rows |-> {<<r.km, r.bases>> : r \in I.irows}]

\* update_counts(flag): recount, dropping rows whose count is zero
UpdateCounts(I, ambigMissing) ==
   [I EXCEPT !.irows = {r2 \in {[r EXCEPT !.cnt = RowCount(r.bases, ambigMissing)] : r \in I.irows} : r2.cnt > 0}]

\* MergeSkaArray::filter.  Dev "StaleCounts" = pinned tree: recount only under ambigMissing.
FilterImpl(I, minCount, filter, ambigMissing, ambigMask, noGapOnly) ==
   LET J == IF ambigMissing \/ "StaleCounts" \notin Dev THEN UpdateCounts(I, ambigMissing) ELSE I
       kept == {r \in J.irows : r.cnt >= minCount /\ KeepSite(r.bases, filter, noGapOnly)}
   IN [J EXCEPT !.irows = {[r EXCEPT !.bases = MaskRow(r.bases, ambigMask)] : r \in kept}]

AtRest(I) == \A r \in I.irows : r.cnt = RowCount(r.bases, FALSE) /\ r.cnt > 0

(***************************************************************************)
(* Distances (C14), for tables without ambiguity codes                     *)
(***************************************************************************)
Unambiguous(T) == \A r \in T.rows : \A i \in 1..Len(r[2]) : ~IsAmbig(r[2][i])

\* <<snps, mismatchNumerator, mismatchDenominator>> over rows present in >= thr samples
Dist(T, i, j, thr) ==
   LET rs == {r \in T.rows : RowCount(r[2], FALSE) >= thr}
   IN << Cardinality({r \in rs : r[2][i] # Gap /\ r[2][j] # Gap /\ r[2][i] # r[2][j]}),
         Cardinality({r \in rs : (r[2][i] = Gap) # (r[2][j] = Gap)}),
         Cardinality({r \in rs : r[2][i] # Gap \/ r[2][j] # Gap}) >>

\* generic_modes::distance as the code computes it.  Dev "ConstantIncludesFreq" = pinned
\* tree: the rows dropped by the frequency threshold are counted in `constant`, i.e. as
\* matches of every pair.
DistanceImpl(T, i, j, thr) ==
   LET above == {r \in T.rows : RowCount(r[2], FALSE) >= thr}
       nonconst == {r \in above : Cardinality(Symbols(r[2])) >= 2}
       constant == IF "ConstantIncludesFreq" \in Dev
                   THEN Cardinality(T.rows) - Cardinality(nonconst)
                   ELSE Cardinality(above) - Cardinality(nonconst)
       both == {r \in nonconst : r[2][i] # Gap /\ r[2][j] # Gap}
       one == {r \in nonconst : (r[2][i] = Gap) # (r[2][j] = Gap)}
   IN << Cardinality({r \in both : r[2][i] # r[2][j]}),
         Cardinality(one),
         constant + Cardinality(both) + Cardinality(one) >>

\* `ska distance --allow-ambiguous` on tables WITH ambiguity codes (C15: the weights in use).  Each code
\* stands for the uniform distribution over its set (N: no weight at all); a row in which both samples have a
\* symbol contributes the probability that the two differ, 1 - sum_x w_a(x) w_b(x), in units of 1/36.  As the
\* code computes it: rows in which every sample shows the same symbol are set aside as constant before the
\* pairwise comparison and contribute nothing (so d(R,R) is 1/2 in a row R,R,T but 0 in a row R,R,R).
Dot6(a, b) == LET wa == Weights6(a) wb == Weights6(b) IN wa[1] * wb[1] + wa[2] * wb[2] + wa[3] * wb[3] + wa[4] * wb[4]
DistAmb(T, i, j, thr) ==
   LET above == {r \in T.rows : RowCount(r[2], FALSE) >= thr}
       nonconst == {r \in above : Cardinality(Symbols(r[2])) >= 2}
       constant == Cardinality(above) - Cardinality(nonconst)
       both == {r \in nonconst : r[2][i] # Gap /\ r[2][j] # Gap}
       one == {r \in nonconst : (r[2][i] = Gap) # (r[2][j] = Gap)}
   IN << FoldSet(LAMBDA r, acc : acc + 36 - Dot6(r[2][i], r[2][j]), 0, both),
         Cardinality(one),
         constant + Cardinality(both) + Cardinality(one) >>
\* printed distance D100 (two decimals, scaled by 100) is dist36/36 rounded: |D100/100 - dist36/36| <= 0.005 (+ slack of
\* one unit of 1/3600 for the binary representation)
Dist36OK(D100, dist36) == (IF 36 * D100 >= 100 * dist36 THEN 36 * D100 - 100 * dist36 ELSE 100 * dist36 - 36 * D100) <= 19

\* printed mismatch proportion P (scaled 1e5) is num/den to 5 decimals
PropOK(P, num, den) == IF den = 0 THEN P = 0
                       ELSE (IF P * den >= num * 100000 THEN P * den - num * 100000 ELSE num * 100000 - P * den) <= den
=============================================================================
