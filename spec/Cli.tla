-------------------------------- MODULE Cli --------------------------------
(***************************************************************************)
(* Command-line layer of ska (beyond the listed properties): how sample    *)
(* names are derived from file names, how file lists are parsed, which     *)
(* argument values are accepted, read sub-sampling, and the rule that a    *)
(* refused command writes no output file.                                  *)
(***************************************************************************)
EXTENDS Naturals, Sequences, FiniteSets

\* ---- argument validation --------------------------------------------------------
ValidK(k) == k >= 5 /\ k <= 63 /\ k % 2 = 1
ValidThreads(t) == t >= 1
\* frequencies / proportions are given as num/den with 0 <= num
ValidUnit(num, den) == num >= 0 /\ num <= den
ValidMinCount(c) == c >= 1            \* or the word "auto"

\* ---- sample names from file names (io_utils::read_input_fastas) --------------------
\* A path is a tuple of characters (strings of length 1).  The name is the base name with
\* ONE of the extensions .fa .fasta .fastq .fastq.gz removed (case-insensitively); if the file
\* name does not end in one of them the whole argument is the name.
Lower1(c) == CASE c = "A" -> "a" [] c = "F" -> "f" [] c = "S" -> "s" [] c = "T" -> "t" [] c = "Q" -> "q"
               [] c = "G" -> "g" [] c = "Z" -> "z" [] OTHER -> c
LowerSeq(s) == [i \in 1..Len(s) |-> Lower1(s[i])]
Exts == { <<".", "f", "a">>, <<".", "f", "a", "s", "t", "a">>, <<".", "f", "a", "s", "t", "q">>,
          <<".", "f", "a", "s", "t", "q", ".", "g", "z">> }
EndsWith(s, e) == Len(s) > Len(e) /\ SubSeq(LowerSeq(s), Len(s) - Len(e) + 1, Len(s)) = e
LastSlash(s) == LET ix == {i \in 1..Len(s) : s[i] = "/"} IN IF ix = {} THEN 0 ELSE CHOOSE i \in ix : \A j \in ix : j <= i
BaseName(s) == SubSeq(s, LastSlash(s) + 1, Len(s))
\* the regexes are greedy on the stem, so the SHORTEST matching extension at the end is removed
\* (x.fastq.gz -> x ; x.fa.gz has no listed extension -> whole argument)
NameOfPath(s) ==
   LET b == BaseName(s)
       m == {e \in Exts : EndsWith(b, e)}
   IN IF m = {} \/ Len(b) = 0 THEN s
      ELSE LET e == CHOOSE x \in m : \A y \in m : Len(x) <= Len(y) IN SubSeq(b, 1, Len(b) - Len(e))

\* ---- file lists (io_utils::get_input_list): name <ws> file [<ws> file2] ---------------
\* a line is a tuple of fields; 2 fields = one file, 3 = two files of ONE sample (a FASTQ pair, or two FASTA files whose
\* records together are the sample - SplitKmer!Dict over the concatenated record list); anything else is refused
LineOK(fields) == Len(fields) \in {2, 3}
ListOK(lines) == \A i \in 1..Len(lines) : LineOK(lines[i])

\* ---- --min-count auto: the coverage model's cutoff becomes the minimum count of the build ----
\* (io_utils::kmer_min_cutoff, get_2_fastq_path), as implemented: when the file list has at least two
\* samples given as FASTQ pairs, `ska build --min-count auto` behaves as `--min-count c` where c is the
\* cutoff `ska cov` reports for the FIRST files of the first two such samples; otherwise the default
\* count of 5 is used (in particular for a single paired sample).
AutoMinCount(nPairedSamples, covCutoffOfFirstFiles) == IF nPairedSamples >= 2 THEN covCutoffOfFirstFiles ELSE 5

\* ---- read sub-sampling (--proportion-reads p): every step-th record, step = round(1/p) ----
\* given as the integer step the driver computed; records are numbered from 0 per file
SubSample(records, step) == SelectSeq([i \in 1..Len(records) |-> <<i - 1, records[i]>>], LAMBDA x : x[1] % step = 0)
SubSampleRecords(records, step) == LET s == SubSample(records, step) IN [i \in 1..Len(s) |-> s[i][2]]
=============================================================================
