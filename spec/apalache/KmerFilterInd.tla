--------------------------- MODULE KmerFilterInd ---------------------------
(***************************************************************************)
(* C12 at design level WITHOUT a bound on the number of observations: the  *)
(* counting filter of KmerFilter.tla (FilterStep, transcribed with a total *)
(* count function, 0 = no entry) together with the true number of          *)
(* sightings of every k-mer (ghost) and the dictionary (ghost).  No two    *)
(* k-mers share a hash here (the collision case is MC_KmerFilter's, known  *)
(* finding K12).                                                           *)
(*                                                                         *)
(* IndInv is an inductive invariant: Apalache discharges                   *)
(*      Init => IndInv                (--init=Init    --length=0)          *)
(*      IndInv /\ Next => IndInv'     (--init=IndInit --length=1)          *)
(* for EVERY value of the counters (unbounded integers), every min_count   *)
(* in 0..8 and 4 k-mers.  IndInv implies Exact: the dictionary holds       *)
(* exactly the k-mers seen at least max(min_count,1) times - never lost,   *)
(* never early - after any number of reads.  MC_KmerFilter checks the same *)
(* statement with TLC for <= 8 observations on the FilterStep operator the *)
(* trace specifications use, and its invariant SameStep ties the two       *)
(* transcriptions together on every reachable state.                       *)
(***************************************************************************)
EXTENDS Integers, FiniteSets

CONSTANTS
    \* @type: Set(Int);
    Kmers,
    \* @type: Int;
    MinCount

VARIABLES
    \* @type: Set(Int);
    bloom,
    \* @type: Int -> Int;
    cnt,
    \* @type: Int -> Int;
    seen,
    \* @type: Set(Int);
    dict

ConstInit == Kmers = 1..4 /\ MinCount \in 0..8

Thr == IF MinCount <= 1 THEN 1 ELSE MinCount

Init == /\ bloom = {}
        /\ cnt = [h \in Kmers |-> 0]
        /\ seen = [h \in Kmers |-> 0]
        /\ dict = {}

\* KmerFilter!FilterStep for one sighting of h
Observe(h) ==
    /\ seen' = [seen EXCEPT ![h] = @ + 1]
    /\ IF MinCount <= 1
       THEN /\ UNCHANGED <<bloom, cnt>> /\ dict' = dict \union {h}
       ELSE IF h \notin bloom
       THEN /\ bloom' = bloom \union {h} /\ UNCHANGED <<cnt, dict>>
       ELSE IF MinCount = 2
       THEN /\ UNCHANGED <<bloom, cnt>> /\ dict' = dict \union {h}
       ELSE LET c == IF cnt[h] > 0 THEN cnt[h] + 1 ELSE 2 IN
            /\ cnt' = [cnt EXCEPT ![h] = c]
            /\ bloom' = bloom
            /\ dict' = IF c = MinCount THEN dict \union {h} ELSE dict

Next == \E h \in Kmers : Observe(h)

TypeOK == /\ bloom \subseteq Kmers /\ dict \subseteq Kmers
          /\ cnt \in [Kmers -> Int] /\ seen \in [Kmers -> Int]

\* the dictionary is exactly the k-mers that reached the count
Exact == \A h \in Kmers : (h \in dict) <=> (seen[h] >= Thr)

IndInv ==
    /\ TypeOK
    /\ \A h \in Kmers :
        /\ seen[h] >= 0
        /\ (h \in dict) <=> (seen[h] >= Thr)
        /\ IF MinCount <= 1 THEN h \notin bloom /\ cnt[h] = 0
           ELSE /\ (h \in bloom) <=> (seen[h] >= 1)
                /\ IF MinCount = 2 THEN cnt[h] = 0
                   ELSE cnt[h] = (IF seen[h] >= 2 THEN seen[h] ELSE 0)

\* an arbitrary state satisfying the invariant (the induction hypothesis)
IndInit == /\ bloom \in SUBSET Kmers
           /\ dict \in SUBSET Kmers
           /\ cnt \in [Kmers -> Int]
           /\ seen \in [Kmers -> Int]
           /\ IndInv
=============================================================================
