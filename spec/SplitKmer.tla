----------------------------- MODULE SplitKmer -----------------------------
(***************************************************************************)
(* Split k-mers of a record.                                               *)
(*                                                                         *)
(* DECLARATIVE layer (what C01/C02/C12/C16/C20 are stated in): the windows *)
(* of k consecutive valid bases, their arms / middle base / canonical      *)
(* orientation, and the per-sample dictionary with IUPAC-merged middles.   *)
(*                                                                         *)
(* IMPLEMENTATION-SHAPED layer: the rolling iterator of                    *)
(* src/ska_dict/split_kmer.rs as pure step functions on a state record     *)
(* whose fields are named as in the code (idx, upper, lower, mid, rcU,     *)
(* rcL, rcMid).  MC_SplitKmer checks that it refines the declarative list. *)
(*                                                                         *)
(* Positions are 0-based where they mirror the code (pos, idx); TLA+       *)
(* tuples are 1-based, so byte i of the code is s[i+1].                    *)
(***************************************************************************)
EXTENDS Bases, SequencesExt

\* Named deviations of the pinned implementation (registered checks use {}).
CONSTANT Dev

Half(k) == (k - 1) \div 2

(***************************************************************************)
(* Quality rules.  qual = <<>> means "no qualities" (FASTA).               *)
(* rule: "none" | "middle" | "strict".  Phred = byte - 33.                 *)
(***************************************************************************)
QualOK(qual, i, minq) ==          \* i is 1-based
   IF qual = <<>> THEN TRUE
   ELSE IF "QualGT" \in Dev THEN qual[i] - 33 > minq ELSE qual[i] - 33 >= minq

\* a position may be part of a window
PosValid(s, qual, i, rule, minq) ==
   IsBase(s[i]) /\ (rule # "strict" \/ QualOK(qual, i, minq))

(***************************************************************************)
(* Declarative windows                                                     *)
(***************************************************************************)
\* 1-based start indices of windows of k valid positions
Starts(s, qual, k, rule, minq) ==
   {i \in 1..(Len(s) + 1 - k) : \A j \in i..(i + k - 1) : PosValid(s, qual, j, rule, minq)}

\* arms (k-1 digits: upper ++ lower) of the window starting at 1-based i
Arms(s, i, k) == LET h == Half(k) IN
   [j \in 1..(k - 1) |-> IF j <= h THEN Enc(s[i + j - 1]) ELSE Enc(s[i + j])]
MidDigit(s, i, k) == Enc(s[i + Half(k)])

\* Observation of the window at i: canonical arms, canonical middle digit,
\* whether the reverse strand was chosen, whether the arms are their own
\* reverse complement, 0-based position of the middle base, and whether the
\* middle base passes the quality rule ("middle" and "strict" both test it).
ObsAt(s, qual, i, k, rc, rule, minq) ==
   LET a == Arms(s, i, k)
       m == MidDigit(s, i, k)
       r == RevComp(a)
       flip == rc /\ LexLess(r, a)
   IN [km   |-> IF flip THEN r ELSE a,
       mid  |-> IF flip THEN CompD(m) ELSE m,
       isrc |-> flip,
       pal  |-> rc /\ r = a,
       pos  |-> i + Half(k) - 1,
       mq   |-> rule = "none" \/ QualOK(qual, i + Half(k), minq)]

\* the list of observations in record order
ObsList(s, qual, k, rc, rule, minq) ==
   LET st == Starts(s, qual, k, rule, minq)
       RECURSIVE Build(_, _)
       Build(i, acc) == IF i > Len(s) + 1 - k THEN acc
                        ELSE IF i \in st THEN Build(i + 1, Append(acc, ObsAt(s, qual, i, k, rc, rule, minq)))
                        ELSE Build(i + 1, acc)
   IN Build(1, <<>>)

ObsSet(s, qual, k, rc, rule, minq) ==
   {ObsAt(s, qual, i, k, rc, rule, minq) : i \in Starts(s, qual, k, rule, minq)}

\* FASTA shorthand
FaObs(s, k, rc) == ObsSet(s, <<>>, k, rc, "none", 0)

(***************************************************************************)
(* Declarative dictionary of a sample (C01): split k-mer |-> IUPAC code of *)
(* exactly the set of middle bases seen; a self-reverse-complement k-mer   *)
(* carries each middle base together with its complement.                  *)
(***************************************************************************)
\* pairs <<km, digit>> that the sample exhibits
ObsPairs(obs) ==
   {<<o.km, o.mid>> : o \in obs} \cup {<<o.km, CompD(o.mid)>> : o \in {x \in obs : x.pal}}

AllFaObs(recs, k, rc) == UNION {FaObs(recs[r], k, rc) : r \in 1..Len(recs)}

DictOfPairs(pairs) ==
   LET kms == {p[1] : p \in pairs} IN
   [km \in kms |-> IupacCode({p[2] : p \in {q \in pairs : q[1] = km}})]

DictOf(recs, k, rc) == DictOfPairs(ObsPairs(AllFaObs(recs, k, rc)))

\* D (a function km |-> code byte) is exactly the dictionary of `pairs`.
\* Equivalent to D = DictOfPairs(pairs) (checked in MC_SplitKmer) but linear-ish
\* for TLC on recorded executions with thousands of windows.
DictMatchesPairs(D, pairs) ==
   /\ \A p \in pairs : p[1] \in DOMAIN D /\ p[2] \in IupacSet(D[p[1]])
   /\ \A km \in DOMAIN D : IupacSet(D[km]) # {} /\ \A d \in IupacSet(D[km]) : <<km, d>> \in pairs

(***************************************************************************)
(* Implementation-shaped rolling iterator (FASTA and reads; the hash is    *)
(* not part of this layer).  A state is a record                            *)
(*   [ok, idx, upper, lower, mid, rcU, rcL, rcMid]                          *)
(* ok = FALSE is the code's `None` / `false`.                               *)
(***************************************************************************)
NoKmer == [ok |-> FALSE, idx |-> 0, upper |-> <<>>, lower |-> <<>>, mid |-> 0,
           rcU |-> <<>>, rcL |-> <<>>, rcMid |-> 0]

\* `*idx + k >= seq_len` on the pinned tree (Dev "EndWindowGE"); the property needs `>`
PastEnd(idx, k, n) == IF "EndWindowGE" \in Dev THEN idx + k >= n ELSE idx + k > n

\* SplitKmer::build from 0-based idx: scan k positions, restarting after an invalid one
RECURSIVE BuildFrom(_, _, _, _, _, _, _)
BuildFrom(s, qual, k, rule, minq, idx, i) ==
   \* i = number of positions of the current attempt already accepted
   IF i = 0 /\ PastEnd(idx, k, Len(s)) THEN NoKmer
   ELSE IF i = k THEN
      LET h == Half(k) IN
      [ok |-> TRUE, idx |-> idx + k - 1,
       upper |-> [j \in 1..h |-> Enc(s[idx + j])],
       mid   |-> Enc(s[idx + h + 1]),
       lower |-> [j \in 1..h |-> Enc(s[idx + h + 1 + j])],
       rcU |-> <<>>, rcL |-> <<>>, rcMid |-> 0]
   ELSE IF PosValid(s, qual, idx + i + 1, rule, minq)
        THEN BuildFrom(s, qual, k, rule, minq, idx, i + 1)
        ELSE BuildFrom(s, qual, k, rule, minq, idx + i + 1, 0)   \* *idx += i + 1; start again

\* update_rc: recompute the reverse-complement halves from scratch
UpdateRC(st) ==
   [st EXCEPT !.rcU = RevComp(st.lower), !.rcL = RevComp(st.upper), !.rcMid = CompD(st.mid)]

\* SplitKmer::new
IterNew(s, qual, k, rc, rule, minq) ==
   LET b == BuildFrom(s, qual, k, rule, minq, 0, 0) IN
   IF b.ok /\ rc THEN UpdateRC(b) ELSE b

\* roll_fwd
IterRoll(s, qual, k, rc, rule, minq, st) ==
   LET idx == st.idx + 1 IN
   IF idx >= Len(s) THEN NoKmer
   ELSE IF ~PosValid(s, qual, idx + 1, rule, minq) THEN
      LET b == BuildFrom(s, qual, k, rule, minq, idx, 0) IN
      IF b.ok /\ rc THEN UpdateRC(b) ELSE b
   ELSE
      LET new == Enc(s[idx + 1])
          up  == Append(Tail(st.upper), st.mid)
          md  == Head(st.lower)
          lo  == Append(Tail(st.lower), new)
      IN [ok |-> TRUE, idx |-> idx, upper |-> up, mid |-> md, lower |-> lo,
          rcL |-> IF rc THEN <<st.rcMid>> \o Front(st.rcL) ELSE st.rcL,
          rcMid |-> IF rc THEN CompD(md) ELSE st.rcMid,
          rcU |-> IF rc THEN <<CompD(new)>> \o Front(st.rcU) ELSE st.rcU]

\* get_curr_kmer, self_palindrome, get_middle_pos as one observation record
IterObs(s, qual, k, rc, rule, minq, st) ==
   LET f == st.upper \o st.lower
       r == st.rcU \o st.rcL
       flip == rc /\ LexLess(r, f)          \* `split_kmer > rc_split_kmer`
       pos == st.idx - Half(k)
   IN [km |-> IF flip THEN r ELSE f,
       mid |-> IF flip THEN st.rcMid ELSE st.mid,
       isrc |-> flip,
       pal |-> rc /\ st.upper = st.rcU /\ st.lower = st.rcL,
       pos |-> pos,
       mq |-> rule = "none" \/ QualOK(qual, pos + 1, minq)]

\* the whole run of the iterator as the list of observations it yields
RECURSIVE IterRun(_, _, _, _, _, _, _, _)
IterRun(s, qual, k, rc, rule, minq, st, acc) ==
   IF ~st.ok THEN acc
   ELSE IterRun(s, qual, k, rc, rule, minq,
                IterRoll(s, qual, k, rc, rule, minq, st),
                Append(acc, IterObs(s, qual, k, rc, rule, minq, st)))

IterList(s, qual, k, rc, rule, minq) ==
   IterRun(s, qual, k, rc, rule, minq, IterNew(s, qual, k, rc, rule, minq), <<>>)

\* rolling state = from-scratch state (C16) at a given iterator state
RollingConsistent(s, k, rc, st) ==
   st.ok => LET i == st.idx - k + 2 IN        \* 1-based window start
            /\ st.upper \o st.lower = Arms(s, i, k)
            /\ st.mid = MidDigit(s, i, k)
            /\ rc => /\ st.rcU \o st.rcL = RevComp(Arms(s, i, k))
                     /\ st.rcMid = CompD(st.mid)
=============================================================================
